package main

import (
	"fmt"
	"go/token"

	"golang.org/x/tools/go/ssa"
)

func init() {
	register(&propDef{
		id:          "C13",
		run:         runC13,
		explanation: "Static analysis of the sorted-table code: (1) the checksum gate of the block reader and the plumbing of the verification flag (every caller passes true or the reader's flag; meta/index/filter blocks always verified); (2) entry decoding gates — block.entry hands out a key/value only when the offset is inside the entry area, all three length varints decoded and the entry ends inside the entry area; the block iterator turns an entry error into a corruption error before touching key/value; (3) index keys — separator/successor from the comparer, falling back to the full last key exactly when it returns nil, recorded with the handle of the block just written; (4) writer/reader agreement on the block trailer (type byte position, checksummed range, trailer length), the footer layout and the format constants (sibling comparison); (5) the filter cannot hide keys (build/probe agreement and fail-open rules of C16); (6) comparer discipline in the table package; (7) prefix compression: a restart point is recorded exactly every restartInterval entries and only non-restart entries share a prefix. These are necessary conditions; round-trip under all layouts, range slicing, approximate offsets and behaviour on altered bytes beyond 'the gate is there' are NOT decided.",
		notCovered:  "lookups, iteration, range slicing, approximate offsets over all sorted key sets; behaviour on altered bytes beyond the presence of the gates",
		assumptions: []string{"snappy encode/decode round-trips", "comparer contract"},
	})
}

func runC13(p *Prog, r *Report) {
	if want("C13.22") {
		ruleOptGetters(p, r, "C13.22", "block parameters > 0 and block strictness", "Options.GetBlockRestartInterval", "Options.GetBlockSize", "Options.GetFilterBaseLg", "Options.GetStrict", "ReadOptions.GetStrict")
	}
	if want("C13.21") {
		// (shared with C08) damaged blocks are reported, not skipped, when tables are rewritten
		ruleCompactionInputsStrict(p, r, "C13.21")
	}
	if want("C13.20") {
		// entry headers are uvarints; a raw length byte only where that length < 0x80
		ruleEntryHeaderEncoding(p, r, "C13.20")
	}
	if want("C13.19") {
		// table iteration reports a block that cannot be read (shared with C02.8)
		ruleIndexedIterator(p, r, "C13.19")
	}
	if want("C13.18") {
		// filter generator and probe agree: a filtered lookup finds what was added (shared with C16)
		ruleBloomAgreement(p, r, "C13.18")
	}
	if want("C13.1") {
		ruleChecksumGates(p, r, "C13.1")
	}
	if want("C13.2") {
		ruleEntryGates(p, r, "C13.2")
	}
	if want("C13.17") {
		// filtered lookups probe the partition the writer put the block's keys in, whatever FilterBaseLg (shared with C16.4)
		ruleFilterPartition(p, r, "C13.17")
	}
	if want("C13.16") {
		ruleBufferPoolGet(p, r, "C13.16")
	}
	if want("C13.15") {
		ruleBytewiseShortening(p, r, "C13.15")
	}
	if want("C13.14") {
		ruleBufferPoolOwnership(p, r, "C13.14")
	}
	if want("C13.13") {
		ruleBlockIterRewind(p, r, "C13.13")
	}
	if want("C13.12") {
		ruleWritersCopyKeys(p, r, "C13.12")
	}
	if want("C13.11") {
		ruleTableOptions(p, r, "C13.11")
	}
	if want("C13.10") {
		ruleBlockRangeSlicing(p, r, "C13.10")
	}
	if want("C13.9") {
		ruleRestartSearch(p, r, "C13.9")
	}
	if want("C13.3") {
		ruleShorteningGuards(p, r, "C13.3")
	}
	if want("C13.4") {
		ruleTrailerAgreement(p, r, "C13.4")
	}
	if want("C13.5") {
		ruleWriterOrderAndBounds(p, r, "C13.5")
	}
	if want("C13.6") {
		ruleComparerDiscipline(p, r, "C13.6", []string{"leveldb/table"}, nil)
	}
	if want("C13.7") {
		ruleRestartPoints(p, r, "C13.7")
	}
	if want("C13.8") {
		ruleNotFoundOnlyWhenExhausted(p, r, "C13.8")
	}
}

// ruleNotFoundOnlyWhenExhausted: Reader.find implements "first entry >= key". It may answer
// ErrNotFound only when the search is exhausted (index seek found no block; the next block does
// not exist / is empty) or when the filter answered "absent". In particular a data block whose
// entries are all smaller than the key (the key falls into the gap below the shortened index key)
// must fall through to the first entry of the NEXT block.
func ruleNotFoundOnlyWhenExhausted(p *Prog, r *Report, rule string) {
	r.Begin(rule, "E-GUARD", "table lookup is 'first entry >= key': Reader.find answers ErrNotFound only if index.Seek found no block, the filter said absent, there is no next block (index.Next false) or the next block is empty; when the sought block has no entry >= key the search continues with the next block's first entry (data.Next), and an entry found is returned", 4)
	defer r.End()
	fn := resolveFn(p, r, "leveldb/table", "(*Reader).find")
	if fn == nil {
		return
	}
	isNF := func(v ssa.Value) bool {
		u, ok := stripConv(v).(*ssa.UnOp)
		if !ok || u.Op != token.MUL {
			return false
		}
		g, ok := u.X.(*ssa.Global)
		return ok && g.Name() == "ErrNotFound"
	}
	nf := func(in ssa.Instruction) bool {
		switch x := in.(type) {
		case *ssa.Store:
			return isNF(x.Val)
		case *ssa.Return:
			for _, v := range x.Results {
				if isNF(v) {
					return true
				}
			}
		}
		return false
	}
	isIterCall := func(method string, onIndex bool) VMatch {
		return func(v ssa.Value) bool {
			c, ok := v.(*ssa.Call)
			if !ok {
				return false
			}
			if c.Call.IsInvoke() {
				return !onIndex && c.Call.Method.Name() == method && namedOf(c.Call.Value.Type()) == "leveldb/iterator.Iterator"
			}
			f := staticCallee(&c.Call)
			return onIndex && f != nil && fnName(f) == "(*leveldb/table.blockIter)."+method
		}
	}
	indexSeek := boolAtom("index.Seek", isIterCall("Seek", true))
	indexNext := boolAtom("index.Next", isIterCall("Next", true))
	dataNext := boolAtom("data.Next", isIterCall("Next", false))
	contains := boolAtom("filter.contains", mCall("(*leveldb/table.filterBlock).contains"))
	atoms := []Atom{indexSeek, indexNext, dataNext, contains}
	checkGuard(p, r, GuardSpec{Rule: "not-found-only-when-exhausted", Fn: fn, Target: nf, TargetDesc: "answering ErrNotFound", Atoms: atoms,
		G: func(a []bool) bool { return !a[0] || !a[1] || !a[2] || !a[3] }, GDesc: "¬index.Seek ∨ ¬index.Next ∨ ¬data.Next ∨ ¬filter.contains", MinTargets: 3})
	// the fall-through exists: when data.Seek fails (no error), index.Next is consulted
	dataSeek := boolAtom("data.Seek", isIterCall("Seek", false))
	r.Site(1)
	nIdxNext := countInstr(fn, func(in ssa.Instruction) bool { v, ok := in.(ssa.Value); return ok && isIterCall("Next", true)(v) })
	r.Check(nIdxNext >= 1, fnName(fn), "falls-through-to-next-block", "find consults the next index entry when the sought block has no entry >= key", "no index.Next() in find", p.Pos(fn.Pos()))
	// a found entry is returned: with data.Seek true, the success exit (key taken from data.Key()) is reached, not an early return
	keyTaken := func(in ssa.Instruction) bool {
		c, ok := in.(*ssa.Call)
		return ok && c.Call.IsInvoke() && c.Call.Method.Name() == "Key"
	}
	checkGuardExact(p, r, GuardSpec{Rule: "found-entry-returned", Fn: fn, Starts: after(fn, func(in ssa.Instruction) bool { v, ok := in.(ssa.Value); return ok && isIterCall("Seek", false)(v) }), Target: keyTaken, TargetDesc: "the entry's key is returned", Atoms: []Atom{dataSeek}, G: func(a []bool) bool { return a[0] }, GDesc: "data.Seek(key) found an entry"}, isReturn, "return")
	nextTaken := []Atom{dataSeek, indexNext, dataNext}
	checkGuardExact(p, r, GuardSpec{Rule: "next-block-entry-returned", Fn: fn, Starts: after(fn, func(in ssa.Instruction) bool { v, ok := in.(ssa.Value); return ok && isIterCall("Next", false)(v) }), Target: keyTaken, TargetDesc: "the next block's first entry is returned", Atoms: nextTaken, G: func(a []bool) bool { return a[2] }, GDesc: "the next block has a first entry"}, isReturn, "return")
}

const tBlock = "leveldb/table.block"
const tBIter = "leveldb/table.blockIter"

func ruleEntryGates(p *Prog, r *Report, rule string) {
	r.Begin(rule, "E-GUARD", "entry decoding gates: block.entry slices a key/value out of the block only when offset < restartsOffset, the three varints decoded (n0,n1,n2 > 0) and offset+n <= restartsOffset; blockIter.Next/Prev report an entry error as corruption before touching key/value; Seek stops at the first key >= target under the comparer", 6)
	defer r.End()
	if fn := resolveFn(p, r, "leveldb/table", "(*block).entry"); fn != nil {
		var uv []*ssa.Call
		instrs(fn, func(_ *ssa.BasicBlock, _ int, in ssa.Instruction) {
			if c, ok := in.(*ssa.Call); ok && isCallTo(c, "encoding/binary.Uvarint") {
				uv = append(uv, c)
			}
		})
		if len(uv) != 3 {
			r.Fail(fnName(fn), "varints:unresolved-anchor", "entry decodes three varints", fmt.Sprintf("%d Uvarint calls", len(uv)), p.Pos(fn.Pos()), nil)
		} else {
			nOf := func(c *ssa.Call) VMatch {
				return func(v ssa.Value) bool {
					e, ok := stripConv(v).(*ssa.Extract)
					return ok && e.Tuple == ssa.Value(c) && e.Index == 1
				}
			}
			rOff := mFieldLoad(tBlock, "restartsOffset")
			atoms := []Atom{
				cmpAtom("offset>=restartsOffset", token.GEQ, mParam("offset"), rOff),
				cmpAtom("n0<=0", token.LEQ, nOf(uv[0]), mConstInt(0)),
				cmpAtom("n1<=0", token.LEQ, nOf(uv[1]), mConstInt(0)),
				cmpAtom("n2<=0", token.LEQ, nOf(uv[2]), mConstInt(0)),
				cmpAtom("offset+n>restartsOffset", token.GTR, func(v ssa.Value) bool {
					b, ok := isBin(v, token.ADD)
					return ok && (mParam("offset")(b.X) || mParam("offset")(b.Y))
				}, rOff),
			}
			kv := func(in ssa.Instruction) bool {
				sl, ok := in.(*ssa.Slice)
				return ok && sl.High != nil && isFieldLoad(sl.X, tBlock, "data")
			}
			checkGuard(p, r, GuardSpec{Rule: "entry-sliced-only-if-wellformed", Fn: fn, Target: kv, TargetDesc: "slicing key/value out of the block", Atoms: atoms, G: func(a []bool) bool { return !a[0] && !a[1] && !a[2] && !a[3] && !a[4] }, GDesc: "offset<restartsOffset ∧ n0,n1,n2>0 ∧ offset+n<=restartsOffset", MinTargets: 2})
			// n is the sum of the header and both lengths
			// the error is a corruption error
			nerr := 0
			instrs(fn, func(_ *ssa.BasicBlock, _ int, in ssa.Instruction) {
				if al, ok := in.(*ssa.Alloc); ok && namedOf(al.Type()) == "leveldb/table.ErrCorrupted" {
					nerr++
				}
			})
			r.Check(nerr >= 2, fnName(fn), "malformed-is-corruption", "a malformed entry is reported as *ErrCorrupted", fmt.Sprintf("%d ErrCorrupted constructions", nerr), p.Pos(fn.Pos()))
		}
	}
	for _, name := range []string{"(*blockIter).Next", "(*blockIter).Prev"} {
		fn := resolveFn(p, r, "leveldb/table", name)
		if fn == nil {
			continue
		}
		ent := evCall("(*leveldb/table.block).entry")
		errV := mErrOfCall("(*leveldb/table.block).entry")
		// on the error edge: no store to key/value except through sErr; and sErr is called
		useKV := orPred(evStoreField(tBIter, "key"), evStoreField(tBIter, "value"))
		ordNotOnError(p, r, fn, "no-kv-on-entry-error", errV, "block.entry", ent, useKV, "i.key / i.value = …")
		if w := findPath(after(fn, ent), onlyWhenErr(errV), evCall("(*leveldb/table.blockIter).sErr"), isReturn); w != nil {
			r.Fail(fnName(fn), "entry-error-not-reported", "an entry decoding error becomes the iterator's error", "on the error edge of block.entry a path returns without sErr()", p.posOfLast(w, isReturn), p.renderPath(w))
		} else {
			r.OK(fnName(fn), "entry-error-reported", "an entry decoding error becomes the iterator's error")
		}
		r.Site(1)
		// the error is converted to a corruption error carrying the block handle
		n := countInstr(fn, evCall("(*leveldb/table.Reader).fixErrCorruptedBH"))
		r.Check(n >= 1, fnName(fn), "entry-error-is-corruption", "entry errors are wrapped as corruption of this block", "fixErrCorruptedBH not used", p.Pos(fn.Pos()))
	}
	if fn := resolveFn(p, r, "leveldb/table", "(*blockIter).Seek"); fn != nil {
		cmpCall := func(v ssa.Value) bool {
			c, ok := v.(*ssa.Call)
			return ok && c.Call.IsInvoke() && c.Call.Method.Name() == "Compare"
		}
		ge := cmpAtom("Compare(i.key,key)>=0", token.GEQ, cmpCall, mConstInt(0))
		// the return true inside the scan loop: after a Next() call
		nx := evCall("(*leveldb/table.blockIter).Next")
		seekSpec := GuardSpec{Rule: "seek-lands-on-first-ge", Fn: fn, Starts: after(fn, nx), Target: retConstBool(true), TargetDesc: "return true (positioned)", Atoms: []Atom{ge}, G: func(a []bool) bool { return a[0] }, GDesc: "Compare(current key, target) >= 0", MinTargets: 1}
		seekSpec.Avoid = nx
		checkGuard(p, r, seekSpec)
		seekSpec.Avoid = nil
		nextTrue := assumeBool(func(v ssa.Value) (bool, bool) {
			if c, ok := v.(*ssa.Call); ok && nx(c) {
				return true, true
			}
			return false, false
		})
		seekSpec.Extra = nextTrue
		checkGuardExact(p, r, seekSpec, nx, "the next entry")
		okArgs := false
		instrs(fn, func(_ *ssa.BasicBlock, _ int, in ssa.Instruction) {
			if c, ok := in.(*ssa.Call); ok && cmpCall(c) && len(c.Call.Args) == 2 && isFieldLoad(c.Call.Args[0], tBIter, "key") && mParam("key")(c.Call.Args[1]) {
				okArgs = true
			}
		})
		r.Check(okArgs, fnName(fn), "compares-current-with-target", "Seek compares the current key with the target, in that order", "Compare(i.key, key) not found", p.Pos(fn.Pos()))
		// restart-point search uses the table's comparer
		checkCallArg(p, r, fn, "restart-search-with-cmp", "(*leveldb/table.block).seek", 1, mFieldLoad("leveldb/table.Reader", "cmp"), "the reader's comparer")
	}
	if fn := resolveFn(p, r, "leveldb/table", "(*block).seek"); fn != nil {
		// the binary-search predicate is Compare(restartKey, key) > 0 and the result steps back one restart point
		var pred *ssa.Function
		for _, a := range fn.AnonFuncs {
			pred = a
		}
		okv := false
		if pred != nil {
			instrs(pred, func(_ *ssa.BasicBlock, _ int, in ssa.Instruction) {
				if ret, ok := in.(*ssa.Return); ok && len(ret.Results) == 1 {
					if b, ok := ret.Results[0].(*ssa.BinOp); ok && (b.Op == token.GTR || b.Op == token.GEQ) && mConstInt(0)(b.Y) {
						okv = true
					}
				}
			})
		}
		r.Site(1)
		r.Check(okv, fnName(fn), "restart-predicate", "restart-point search finds the first restart key > (or >=) target, then steps back one: the scan starts at or before the first entry >= target", "predicate is not Compare(restartKey, key) > 0 / >= 0", p.Pos(fn.Pos()))
	}
}

func ruleTrailerAgreement(p *Prog, r *Report, rule string) {
	r.Begin(rule, "E-SIB", "writer/reader agreement on the table format: block trailer = type byte + CRC over (data + type byte); handle length excludes the 5-byte trailer; reader verifies CRC over length+1 bytes and reads the type at data[length]; footer = metaindex handle, index handle, magic at the end; constants blockTrailerLen=5, footerLen=48", 8)
	defer r.End()
	for name, want := range map[string]string{"blockTrailerLen": "5", "footerLen": "48", "blockTypeNoCompression": "0", "blockTypeSnappyCompression": "1"} {
		got := constString(p, "leveldb/table", name)
		r.Site(1)
		r.Check(got == want, "leveldb/table."+name, "constant", "format constant "+name+" = "+want, "got "+got, "")
	}
	r.Site(1)
	r.Check(constString(p, "leveldb/table", "magic") == "\"W\\xfb\\x80\\x8b$uG\\xdb\"", "leveldb/table.magic", "constant", "table magic number unchanged", "got "+constString(p, "leveldb/table", "magic"), "")
	if fn := resolveFn(p, r, "leveldb/table", "(*Writer).writeBlock"); fn != nil {
		// checksum over b[:len(b)-4], stored at b[len(b)-4:], handle length len(b)-5
		lenMinus := func(k int64) VMatch {
			return func(v ssa.Value) bool {
				b, ok := isBin(stripConv(v), token.SUB)
				if !ok || !mConstInt(k)(b.Y) {
					return false
				}
				c, ok := b.X.(*ssa.Call)
				return ok && isCallTo(c, "builtin:len")
			}
		}
		okCRC, okPut, okLen := false, false, false
		instrs(fn, func(_ *ssa.BasicBlock, _ int, in ssa.Instruction) {
			switch x := in.(type) {
			case *ssa.Call:
				switch calleeName(&x.Call) {
				case "leveldb/util.NewCRC":
					if sl, ok := x.Call.Args[0].(*ssa.Slice); ok && sl.Low == nil && lenMinus(4)(sl.High) {
						okCRC = true
					}
				case "(encoding/binary.littleEndian).PutUint32":
					if sl, ok := x.Call.Args[1].(*ssa.Slice); ok && sl.High == nil && lenMinus(4)(sl.Low) {
						okPut = true
					}
				}
			case *ssa.Store:
				if isFieldAddr(x.Addr, "leveldb/table.blockHandle", "length") && lenMinus(5)(x.Val) {
					okLen = true
				}
			}
		})
		r.Site(3)
		r.Check(okCRC, fnName(fn), "crc-range", "writer: CRC over b[:len(b)-4] (data + type byte)", "different range", p.Pos(fn.Pos()))
		r.Check(okPut, fnName(fn), "crc-position", "writer: CRC stored in the last 4 bytes", "different position", p.Pos(fn.Pos()))
		r.Check(okLen, fnName(fn), "handle-length", "writer: handle length = len(b) - blockTrailerLen", "different length", p.Pos(fn.Pos()))
		// type byte written right after the payload
		nType := 0
		instrs(fn, func(_ *ssa.BasicBlock, _ int, in ssa.Instruction) {
			if st, ok := in.(*ssa.Store); ok {
				if _, isIA := st.Addr.(*ssa.IndexAddr); isIA {
					if c, ok := constInt(st.Val); ok && (c == 0 || c == 1) {
						nType++
					}
				}
			}
		})
		r.Check(nType == 2, fnName(fn), "type-byte", "writer stores the compression type byte for both encodings", fmt.Sprintf("%d type byte stores", nType), p.Pos(fn.Pos()))
		// offset advances by the full written length
		okOff := false
		instrs(fn, func(_ *ssa.BasicBlock, _ int, in ssa.Instruction) {
			if st, ok := in.(*ssa.Store); ok && isFieldAddr(st.Addr, "leveldb/table.Writer", "offset") {
				if b, ok := isBin(st.Val, token.ADD); ok && isFieldLoad(b.X, "leveldb/table.Writer", "offset") {
					okOff = true
				}
			}
		})
		r.Check(okOff, fnName(fn), "offset-advances", "the file offset advances by the bytes written", "offset not advanced", p.Pos(fn.Pos()))
		ordNotOnError(p, r, fn, "no-handle-on-write-error", mErrOfPred(isWriteInvoke), "writer.Write", isWriteInvoke, evStoreField("leveldb/table.Writer", "offset"), "advancing the offset")
	}
	if fn := resolveFn(p, r, "leveldb/table", "(*Reader).readRawBlock"); fn != nil {
		lenPlus1 := func(v ssa.Value) bool {
			b, ok := isBin(stripConv(v), token.ADD)
			if !ok || !mConstInt(1)(b.Y) {
				return false
			}
			if f, ok := b.X.(*ssa.Field); ok {
				_, n, _, ok := fieldOf(f)
				return ok && n == "length"
			}
			return isFieldLoad(b.X, "leveldb/table.blockHandle", "length")
		}
		okCRC, okGet, okAlloc := false, false, false
		instrs(fn, func(_ *ssa.BasicBlock, _ int, in ssa.Instruction) {
			c, ok := in.(*ssa.Call)
			if !ok {
				return
			}
			switch calleeName(&c.Call) {
			case "leveldb/util.NewCRC":
				if sl, ok := c.Call.Args[0].(*ssa.Slice); ok && sl.Low == nil && lenPlus1(sl.High) {
					okCRC = true
				}
			case "(encoding/binary.littleEndian).Uint32":
				if sl, ok := c.Call.Args[1].(*ssa.Slice); ok && sl.High == nil && lenPlus1(sl.Low) {
					okGet = true
				}
			case "(*leveldb/util.BufferPool).Get":
				if b, ok := isBin(stripConv(c.Call.Args[1]), token.ADD); ok && mConstInt(5)(b.Y) {
					okAlloc = true
				}
			}
		})
		r.Site(3)
		r.Check(okCRC, fnName(fn), "crc-range", "reader: CRC over data[:length+1]", "different range", p.Pos(fn.Pos()))
		r.Check(okGet, fnName(fn), "crc-position", "reader: stored CRC read at data[length+1:]", "different position", p.Pos(fn.Pos()))
		r.Check(okAlloc, fnName(fn), "reads-trailer", "reader reads length+blockTrailerLen bytes", "different read size", p.Pos(fn.Pos()))
	}
	if fn := resolveFn(p, r, "leveldb/table", "(*Writer).Close"); fn != nil {
		// footer: metaindex handle first, then index handle, magic at footerLen-len(magic)
		calls := findCalls(fn, "leveldb/table.encodeBlockHandle")
		var footerCalls []ssa.Instruction
		for _, c := range calls {
			if argIs(c, 0, func(v ssa.Value) bool {
				// dst derived from the footer slice (w.scratch[:footerLen])
				sl, ok := v.(*ssa.Slice)
				if !ok {
					return false
				}
				if inner, ok := sl.X.(*ssa.Slice); ok {
					sl = inner
				}
				k, ok := constInt(sl.High)
				return ok && k == 48
			}) {
				footerCalls = append(footerCalls, c)
			}
		}
		r.Site(1)
		okOrder := false
		if len(footerCalls) == 2 {
			first, second := footerCalls[0], footerCalls[1]
			if findPath([]point{{second.Block(), indexOf(second) + 1}}, nil, nil, func(in ssa.Instruction) bool { return in == first }) != nil {
				first, second = second, first
			}
			isMeta := func(c ssa.Instruction) bool {
				return argIs(c, 1, func(v ssa.Value) bool {
					e, ok := v.(*ssa.Extract)
					if !ok {
						return false
					}
					call, ok := e.Tuple.(*ssa.Call)
					return ok && isCallTo(call, "(*leveldb/table.Writer).writeBlock") && argIs(call, 1, func(a ssa.Value) bool {
						fa, ok := a.(*ssa.FieldAddr)
						if !ok {
							return false
						}
						_, f, base, ok := fieldOf(fa)
						return ok && f == "buf" && isFieldAddr(base, "leveldb/table.Writer", "dataBlock")
					})
				})
			}
			okOrder = isMeta(first) && !isMeta(second)
		}
		r.Check(okOrder, fnName(fn), "footer-order", "footer holds the metaindex handle first, then the index handle", fmt.Sprintf("%d footer handle encodings; order ok=%v", len(footerCalls), okOrder), p.Pos(fn.Pos()))
		// the footer is the last thing written and is followed by the sticky closed error
		ordOnSuccess(p, r, fn, "footer-written", nil, isWriteInvoke, "writer.Write(footer)")
	}
	if fn := resolveFn(p, r, "leveldb/table", "NewReader"); fn != nil {
		// metaBH decoded from footer[:], indexBH from footer[n:]
		okM, okI := false, false
		instrs(fn, func(_ *ssa.BasicBlock, _ int, in ssa.Instruction) {
			st, ok := in.(*ssa.Store)
			if !ok {
				return
			}
			ex, ok := st.Val.(*ssa.Extract)
			if !ok || ex.Index != 0 {
				return
			}
			c, ok := ex.Tuple.(*ssa.Call)
			if !ok || !isCallTo(c, "leveldb/table.decodeBlockHandle") {
				return
			}
			sl, ok := c.Call.Args[0].(*ssa.Slice)
			if !ok {
				return
			}
			if isFieldAddr(st.Addr, "leveldb/table.Reader", "metaBH") && sl.Low == nil {
				okM = true
			}
			if isFieldAddr(st.Addr, "leveldb/table.Reader", "indexBH") && sl.Low != nil {
				okI = true
			}
		})
		r.Site(2)
		r.Check(okM && okI, fnName(fn), "footer-order", "reader decodes the metaindex handle from the footer start and the index handle after it", fmt.Sprintf("meta first:%v index second:%v", okM, okI), p.Pos(fn.Pos()))
		// the metaindex block is read with checksum verification
		checkCallArg(p, r, fn, "metaindex-verified", "(*leveldb/table.Reader).readBlock", 2, func(v ssa.Value) bool { b, ok := constBool(v); return ok && b }, "verifyChecksum = true")
	}
	// block handle codec
	enc := resolveFn(p, r, "leveldb/table", "encodeBlockHandle")
	dec := resolveFn(p, r, "leveldb/table", "decodeBlockHandle")
	if enc != nil && dec != nil {
		ne := len(findCalls(enc, "encoding/binary.PutUvarint"))
		nd := len(findCalls(dec, "encoding/binary.Uvarint"))
		r.Site(2)
		r.Check(ne == 2 && nd == 2, "table.encodeBlockHandle~table.decodeBlockHandle", "two-varints", "a block handle is two varints (offset, length) on both sides", fmt.Sprintf("encode %d, decode %d", ne, nd), p.Pos(enc.Pos()))
		// offset first
		okE := false
		for _, c := range findCalls(enc, "encoding/binary.PutUvarint") {
			if argIs(c, 0, mParam("dst")) && argIs(c, 1, func(v ssa.Value) bool {
				return isFieldOfParam(v, "leveldb/table.blockHandle", "offset")
			}) {
				okE = true
			}
		}
		r.Check(okE, fnName(enc), "offset-first", "the offset is encoded first (at dst[0:])", "offset not first", p.Pos(enc.Pos()))
	}
}

// ruleRestartPoints: C13.7.
func ruleRestartPoints(p *Prog, r *Report, rule string) {
	r.Begin(rule, "E-GUARD", "prefix compression: blockWriter.append records a restart point only when nEntries % restartInterval == 0 (the first entry of a block always qualifies) and shares a prefix with the previous key only otherwise; finish writes every restart offset followed by their count; the reader locates the restart array from the last 4 bytes", 4)
	defer r.End()
	tBW := "leveldb/table.blockWriter"
	if fn := resolveFn(p, r, "leveldb/table", "(*blockWriter).append"); fn != nil {
		atRestart := cmpAtom("nEntries%restartInterval==0", token.EQL, func(v ssa.Value) bool { _, ok := isBin(v, token.REM); return ok }, mConstInt(0))
		checkGuard(p, r, GuardSpec{Rule: "restart-recorded", Fn: fn, Target: evStoreField(tBW, "restarts"), TargetDesc: "recording a restart point", Atoms: []Atom{atRestart}, G: func(a []bool) bool { return a[0] }, GDesc: "nEntries % restartInterval == 0", MinTargets: 1})
		checkGuard(p, r, GuardSpec{Rule: "prefix-shared-only-between-restarts", Fn: fn, Target: evCall("leveldb/table.sharedPrefixLen"), TargetDesc: "sharing a prefix with the previous key", Atoms: []Atom{atRestart}, G: func(a []bool) bool { return !a[0] }, GDesc: "not at a restart point", MinTargets: 1})
		// the modulus operands
		okv := false
		instrs(fn, func(_ *ssa.BasicBlock, _ int, in ssa.Instruction) {
			if b, ok := in.(*ssa.BinOp); ok && b.Op == token.REM && isFieldLoad(b.X, tBW, "nEntries") && isFieldLoad(b.Y, tBW, "restartInterval") {
				okv = true
			}
		})
		r.Check(okv, fnName(fn), "interval-operands", "the restart test is nEntries % restartInterval", "different operands", p.Pos(fn.Pos()))
		// the restart offset is the current buffer length (start of this entry)
		okOff := false
		instrs(fn, func(_ *ssa.BasicBlock, _ int, in ssa.Instruction) {
			if c, ok := in.(*ssa.Call); ok && isCallTo(c, "builtin:append") && isFieldLoad(c.Call.Args[0], tBW, "restarts") {
				okOff = true
			}
		})
		r.Check(okOff, fnName(fn), "restart-offset", "the restart offset is appended to w.restarts", "no append to restarts", p.Pos(fn.Pos()))
		// shared + unshared + value lengths are written, then the unshared key bytes, then the value
		n := countInstr(fn, evCall("encoding/binary.PutUvarint"))
		r.Check(n == 3, fnName(fn), "three-length-varints", "an entry header is three varints (shared, unshared, value length)", fmt.Sprintf("%d PutUvarint calls", n), p.Pos(fn.Pos()))
		// key[nShared:] is what is written
		okKey := false
		instrs(fn, func(_ *ssa.BasicBlock, _ int, in ssa.Instruction) {
			if c, ok := in.(*ssa.Call); ok && isCallTo(c, "(*leveldb/util.Buffer).Write") {
				if sl, ok := c.Call.Args[1].(*ssa.Slice); ok && mParam("key")(sl.X) && sl.Low != nil && sl.High == nil {
					okKey = true
				}
			}
		})
		r.Check(okKey, fnName(fn), "unshared-suffix-written", "only the unshared key suffix key[nShared:] is written", "key[nShared:] write not found", p.Pos(fn.Pos()))
	}
	if fn := resolveFn(p, r, "leveldb/table", "(*blockWriter).finish"); fn != nil {
		// the count appended is len(restarts) (before appending itself)
		okv := false
		instrs(fn, func(_ *ssa.BasicBlock, _ int, in ssa.Instruction) {
			if c, ok := in.(*ssa.Call); ok && isCallTo(c, "builtin:len") && isFieldLoad(c.Call.Args[0], tBW, "restarts") {
				okv = true
			}
		})
		r.Site(1)
		r.Check(okv, fnName(fn), "count-written", "finish appends the number of restart points after the offsets", "len(restarts) not used", p.Pos(fn.Pos()))
	}
	if fn := resolveFn(p, r, "leveldb/table", "(*Reader).readBlock"); fn != nil {
		// restartsLen from the last 4 bytes; restartsOffset = len(data) - (restartsLen+1)*4
		okLen, okOff := false, false
		instrs(fn, func(_ *ssa.BasicBlock, _ int, in ssa.Instruction) {
			switch x := in.(type) {
			case *ssa.Call:
				if calleeName(&x.Call) == "(encoding/binary.littleEndian).Uint32" {
					if sl, ok := x.Call.Args[1].(*ssa.Slice); ok && sl.High == nil {
						if b, ok := isBin(sl.Low, token.SUB); ok && mConstInt(4)(b.Y) {
							okLen = true
						}
					}
				}
			case *ssa.BinOp:
				if x.Op == token.MUL && mConstInt(4)(x.Y) {
					if b, ok := isBin(x.X, token.ADD); ok && mConstInt(1)(b.Y) {
						okOff = true
					}
				}
			}
		})
		r.Site(2)
		r.Check(okLen, fnName(fn), "count-position", "the reader takes the restart count from the block's last 4 bytes", "different position", p.Pos(fn.Pos()))
		r.Check(okOff, fnName(fn), "array-position", "restartsOffset = len(data) - (restartsLen+1)*4", "different expression", p.Pos(fn.Pos()))
	}
}

// ruleRestartSearch: block.seek finds the restart interval by binary search over the restart
// points; its predicate decodes the restart entry by hand. It must locate the key exactly as
// block.entry does (key bytes start after the shared-length byte and BOTH length varints — the
// value length varint is as long as the value requires) and compare it with the comparer for
// "restart key > sought key".
func ruleRestartSearch(p *Prog, r *Report, rule string) {
	r.Begin(rule, "E-SIB", "restart-point search (block.seek): in every comparison of the search predicate the compared key is data[m : m+keyLen] with m = restart offset + 1 (shared = 0) + len(key-length varint) + len(value-length varint), both varint lengths taken from binary.Uvarint at their positions, keyLen from the first; the predicate is `restart key > sought key`; the result index is clamped to the first restart of the slice", 1)
	defer r.End()
	fn := resolveFn(p, r, "leveldb/table", "(*block).seek$1")
	if fn == nil {
		return
	}
	isUv := func(v ssa.Value, idx int) (*ssa.Call, bool) {
		ex, ok := stripConv(v).(*ssa.Extract)
		if !ok || ex.Index != idx {
			return nil, false
		}
		c, ok := ex.Tuple.(*ssa.Call)
		return c, ok && isCallTo(c, "encoding/binary.Uvarint")
	}
	// collect the additive terms of an int expression
	var terms func(v ssa.Value, out *[]ssa.Value)
	terms = func(v ssa.Value, out *[]ssa.Value) {
		v = stripConv(v)
		if b, ok := v.(*ssa.BinOp); ok && b.Op == token.ADD {
			terms(b.X, out)
			terms(b.Y, out)
			return
		}
		*out = append(*out, v)
	}
	ncmp := 0
	instrs(fn, func(_ *ssa.BasicBlock, _ int, in ssa.Instruction) {
		c, ok := in.(*ssa.Call)
		if !ok || !c.Call.IsInvoke() || c.Call.Method.Name() != "Compare" {
			return
		}
		ncmp++
		r.Site(1)
		sl, ok := c.Call.Args[0].(*ssa.Slice)
		if !ok || sl.Low == nil || sl.High == nil {
			r.Fail(fnName(fn), "compared-key-shape", "the compared key is a sub-slice data[m:m+keyLen]", "first comparer operand is not a two-bound slice", p.Pos(c.Pos()), nil)
			return
		}
		var lo, hi []ssa.Value
		terms(sl.Low, &lo)
		terms(sl.High, &hi)
		var uvLens []*ssa.Call
		one := false
		for _, t := range lo {
			if uc, ok := isUv(t, 1); ok {
				uvLens = append(uvLens, uc)
			}
			if mConstInt(1)(t) {
				one = true
			}
			if k, isC := constInt(t); isC && k > 1 {
				uvLens = nil // a constant stands in for a varint length
				one = false
			}
		}
		distinct := len(uvLens) == 2 && uvLens[0] != uvLens[1]
		// the second varint is decoded where the first ended
		chained := false
		if distinct {
			for i := 0; i < 2; i++ {
				a, b := uvLens[i], uvLens[1-i]
				if s2, ok := b.Call.Args[0].(*ssa.Slice); ok && s2.Low != nil {
					var ts []ssa.Value
					terms(s2.Low, &ts)
					for _, t := range ts {
						if uc, ok := isUv(t, 1); ok && uc == a {
							chained = true
						}
					}
				}
			}
		}
		// offset++ may be folded: accept the +1 either as a term here or inside the offset value
		_ = one
		keyLen := false
		for _, t := range hi {
			if uc, ok := isUv(t, 0); ok && distinct && (uc == uvLens[0] || uc == uvLens[1]) {
				keyLen = true
			}
		}
		r.Check(distinct && chained && keyLen, fnName(fn), "key-located-like-entry@"+branchLabel(c), "the compared key starts after both length varints (lengths from Uvarint) and is keyLen long", fmt.Sprintf("two varint lengths=%v chained=%v keyLen-from-first-varint=%v: a restart entry whose value length needs more than one byte is compared at the wrong offset; the search picks the wrong interval (present keys not found, Seek lands later)", distinct, chained, keyLen), p.Pos(c.Pos()))
		// predicate relation
		okRel := false
		for _, ref := range *c.Referrers() {
			// `> 0` and `>= 0` are both sound (the scan starts in an interval whose first key is <= the
			// sought key and runs forward); `<`/`<=` are not
			if b, ok := ref.(*ssa.BinOp); ok && (b.Op == token.GTR || b.Op == token.GEQ) && mConstInt(0)(b.Y) {
				okRel = true
			}
			if b, ok := ref.(*ssa.BinOp); ok && (b.Op == token.LSS || b.Op == token.LEQ) && mConstInt(0)(b.X) {
				okRel = true
			}
		}
		r.Check(okRel && mParamOrFree("key")(c.Call.Args[1]), fnName(fn), "predicate-restart-key-greater@"+branchLabel(c), "the predicate is Compare(restart key, sought key) > 0 (or >= 0): monotone in the restart index, true for restart keys beyond the sought key", "another relation / operand", p.Pos(c.Pos()))
	})
	r.Check(ncmp >= 1, fnName(fn), "has-comparison", "the search predicate compares keys through the comparer", "no comparer call", p.Pos(fn.Pos()))
}

func mParamOrFree(name string) VMatch {
	return func(v ssa.Value) bool {
		v = stripConv(v)
		if pa, ok := v.(*ssa.Parameter); ok {
			return paramRefName(pa) == name
		}
		if u, ok := v.(*ssa.UnOp); ok {
			if fv, ok := u.X.(*ssa.FreeVar); ok {
				return fv.Name() == name
			}
		}
		if fv, ok := v.(*ssa.FreeVar); ok {
			return fv.Name() == name
		}
		return false
	}
}
