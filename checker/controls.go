package main

import (
	"fmt"
	"go/token"
	"go/types"

	"golang.org/x/tools/go/ssa"
)

// Positive / negative controls: every engine is run, on every check run, against tiny known-bad
// and known-good functions in /verif/fixtures/fx. The rule must fire on the bad ones and stay
// silent on the good ones; otherwise the check itself is reported broken (a violation of kind
// control-failed). This matters because most rules expect zero hits on a healthy tree.

type control struct {
	engines []string
	run     func(fx *Prog, c *ctl)
}

type ctl struct {
	r  *Report
	fx *Prog
}

func (c *ctl) expect(name string, fired, want bool, what string) {
	c.r.Site(1)
	if fired == want {
		verb := "fires on"
		if !want {
			verb = "is silent on"
		}
		c.r.OK("fixtures/fx."+name, "control", fmt.Sprintf("%s: engine %s the fixture", what, verb))
	} else {
		c.r.Fail("fixtures/fx."+name, "control-failed", what, fmt.Sprintf("engine fired=%v but expected %v on this fixture: the checker is broken", fired, want), "", nil)
	}
}

func (c *ctl) fn(name string) *ssa.Function {
	f := c.fx.Fn("fixtures/fx", name)
	if f == nil {
		c.r.Fail("fixtures/fx."+name, "control-missing", "fixture exists", "fixture function not found", "", nil)
	}
	return f
}

// which engines each property uses
var propEngines = map[string][]string{
	"C01": {"cmp", "ord", "guard", "flow"}, "C02": {"cmp", "guard", "flow", "exact"}, "C03": {"pair", "guard", "flow"},
	"C04": {"ord", "guard", "flow"}, "C05": {"ord", "pair", "gby"}, "C06": {"cmp", "guard", "flow"},
	"C07": {"ord", "pair", "reach"}, "C08": {"err", "ord", "guard"}, "C09": {"pair", "token", "chan", "ord"},
	"C10": {"token", "guard", "ord"}, "C11": {"pair", "ord", "exh"}, "C12": {"guard", "sib"}, "C13": {"guard", "flow", "exact", "sib"},
	"C14": {"pair", "gby", "guard", "flow"}, "C15": {"guard", "sib"}, "C16": {"guard", "flow", "sib"}, "C17": {"pair", "gby", "guard", "ord", "exact"},
	"C18": {"exh", "pair", "guard", "reach"}, "C19": {"flow", "ord", "guard", "exact", "max"}, "C20": {"fresh", "flow"},
}

func runControls(id string, fx *Prog, r *Report) {
	r.Begin(id+".ctl", "CONTROL", "positive/negative controls: each engine used by this property fires on its known-bad fixture and is silent on its known-good fixture", 2)
	defer r.End()
	c := &ctl{r: r, fx: fx}
	done := map[string]bool{}
	for _, e := range propEngines[id] {
		if f, ok := controlFns[e]; ok && !done[e] {
			done[e] = true
			f(c)
		}
	}
}

func fxCall(name string) InstrPred { return evCall("fixtures/fx." + name) }

var controlFns = map[string]func(c *ctl){
	"pair": func(c *ctl) {
		sp := lockSpec()
		sp.InScope = func(*ssa.Function) bool { return true }
		leak := func(name string) (bool, bool) {
			f := c.fn(name)
			if f == nil {
				return false, false
			}
			res := sp.Analyze(f, nil, nil)
			held := false
			for _, e := range res.Exits {
				if len(e.State.cnt) != 0 {
					held = true
				}
			}
			return held, len(res.Underflows) > 0
		}
		h, _ := leak("(*S).BadLockLeak")
		c.expect("(*S).BadLockLeak", h, true, "E-PAIR mutex: error exit with the lock held")
		h, u := leak("(*S).GoodLockDefer")
		c.expect("(*S).GoodLockDefer", h || u, false, "E-PAIR mutex: deferred unlock")
		h, u = leak("(*S).GoodLockExplicit")
		c.expect("(*S).GoodLockExplicit", h || u, false, "E-PAIR mutex: explicit unlock on every exit")
		_, u = leak("(*S).BadDoubleUnlock")
		c.expect("(*S).BadDoubleUnlock", u, true, "E-PAIR mutex: unlock of an unheld lock")
	},
	"token": func(c *ctl) {
		sp := &TSpec{Name: "fxtoken", Instr: func(in ssa.Instruction) ([]Eff, bool) {
			switch x := in.(type) {
			case *ssa.Send:
				if isFieldLoad(x.Chan, "fixtures/fx.S", "tok") {
					return []Eff{{Res: "tok", D: 1}}, true
				}
			case *ssa.UnOp:
				if x.Op == token.ARROW && isFieldLoad(x.X, "fixtures/fx.S", "tok") {
					return []Eff{{Res: "tok", D: -1}}, true
				}
			}
			return nil, false
		}}
		leak := func(name string) bool {
			f := c.fn(name)
			if f == nil {
				return false
			}
			for _, e := range sp.Analyze(f, nil, nil).Exits {
				if e.State.cnt["tok"] != 0 {
					return true
				}
			}
			return false
		}
		c.expect("(*S).BadTokenLeak", leak("(*S).BadTokenLeak"), true, "E-PAIR channel token: error exit holding the token")
		c.expect("(*S).GoodToken", leak("(*S).GoodToken"), false, "E-PAIR channel token: released on all exits")
	},
	"ord": func(c *ctl) {
		sy, sm, pub := fxCall("syncIt"), fxCall("setMeta"), fxCall("publish")
		if f := c.fn("BadOrder"); f != nil {
			c.expect("BadOrder", mustPrecede(f, nil, sy, sm) != nil, true, "E-ORD must-precede: pointer switched before sync")
		}
		if f := c.fn("GoodOrder"); f != nil {
			c.expect("GoodOrder", mustPrecede(f, nil, sy, sm) != nil, false, "E-ORD must-precede: sync then switch")
		}
		if f := c.fn("BadSkipSync"); f != nil {
			c.expect("BadSkipSync", mustPassBeforeReturn(f, noErrEdges, sy) != nil, true, "E-ORD must-pass-through: a success path without the sync")
		}
		if f := c.fn("GoodOrder"); f != nil {
			c.expect("GoodOrder/success", mustPassBeforeReturn(f, noErrEdges, sy) != nil, false, "E-ORD must-pass-through: every success path syncs")
		}
		errOf := mErrOfCall("fixtures/fx.syncIt")
		onErr := func(f *ssa.Function) bool {
			tested := false
			for _, b := range f.Blocks {
				if cond, _, ok := ifCond(b); ok {
					if x, _, ok := condNilTest(cond); ok && errOf(x) {
						tested = true
					}
				}
			}
			return !tested || findPath(after(f, sy), onlyWhenErr(errOf), nil, pub) != nil
		}
		if f := c.fn("BadPublishOnError"); f != nil {
			c.expect("BadPublishOnError", onErr(f), true, "E-ORD not-on-error: published although the sync failed")
		}
		if f := c.fn("GoodPublish"); f != nil {
			c.expect("GoodPublish", onErr(f), false, "E-ORD not-on-error: published only after a successful sync")
		}
	},
	"guard": func(c *ctl) {
		mk := func(f *ssa.Function) GuardSpec {
			atoms := []Atom{
				cmpAtom("seq<=min", token.LEQ, mFieldLoad("fixtures/fx.S", "seq"), mFieldLoad("fixtures/fx.S", "min")),
				boolAtom("del", mParam("del")),
				boolAtom("base()", func(v ssa.Value) bool {
					cl, ok := v.(*ssa.Call)
					return ok && mParam("base")(cl.Call.Value)
				}),
			}
			return GuardSpec{Rule: "ctl", Fn: f, Target: fxCall("drop"), TargetDesc: "drop()", Atoms: atoms, G: func(a []bool) bool { return a[0] && a[1] && a[2] }, GDesc: "seq<=min ∧ del ∧ base()", MinTargets: 1}
		}
		for name, want := range map[string]bool{"(*S).GoodGuard": false, "(*S).BadGuardWeakened": true, "(*S).BadGuardOperator": true, "(*S).GoodGuardStrengthened": false} {
			if f := c.fn(name); f != nil {
				ok, _, _, _, _, _ := evalGuard(c.fx, mk(f))
				c.expect(name, !ok, want, "E-GUARD: reach(drop) ⇒ seq<=min ∧ del ∧ base()")
			}
		}
	},
	"exact": func(c *ctl) {
		for name, want := range map[string]bool{"(*S).GoodExact": false, "(*S).BadExactSkips": true} {
			if f := c.fn(name); f != nil {
				sub := newReport("ctl", "", 0, "")
				sub.Begin("x", "E-GUARD", "x", 0)
				checkGuardExact(c.fx, sub, GuardSpec{Rule: "ctl", Fn: f, Target: fxCall("drop"), TargetDesc: "drop()", Atoms: []Atom{cmpAtom("seq<=min", token.LEQ, mFieldLoad("fixtures/fx.S", "seq"), mFieldLoad("fixtures/fx.S", "min"))}, G: func(a []bool) bool { return a[0] }, GDesc: "seq<=min"}, isReturn, "return")
				c.expect(name, sub.failed() > 0, want, "E-GUARD exactness: seq<=min ⇒ drop() before return")
			}
		}
	},
	"sib": func(c *ctl) {
		offs := func(f *ssa.Function) string {
			set := map[string]bool{}
			instrs(f, func(_ *ssa.BasicBlock, _ int, in ssa.Instruction) {
				if ia, ok := in.(*ssa.IndexAddr); ok {
					set[exprSig(ia.Index, 3)] = true
				}
			})
			var out []string
			for k := range set {
				out = append(out, k)
			}
			sortStrings(out)
			return fmt.Sprint(out)
		}
		enc := c.fn("EncodeHdr")
		for name, want := range map[string]bool{"DecodeHdrGood": false, "DecodeHdrBad": true} {
			if f := c.fn(name); f != nil && enc != nil {
				c.expect(name, offs(f) != offs(enc), want, "E-SIB: encoder and decoder index the same offsets")
			}
		}
	},
	"max": func(c *ctl) {
		for name, want := range map[string]bool{"GoodRunningMax": false, "BadRunningMin": true} {
			if f := c.fn(name); f != nil {
				found := false
				instrs(f, func(_ *ssa.BasicBlock, _ int, in ssa.Instruction) {
					if q, ok := in.(*ssa.Phi); ok {
						if _, _, ok := runningMaxPair(q, mAny); ok {
							found = true
						}
					}
				})
				c.expect(name, !found, want, "E-FLOW running-maximum shape")
			}
		}
	},
	"cmp": func(c *ctl) {
		rr := newReport("ctl", "quick", 0, "")
		ruleComparerDiscipline(c.fx, rr, "ctl", []string{"fixtures/fx"}, nil)
		hit := map[string]bool{}
		for _, o := range rr.Obls {
			if o.Status == "violation" {
				hit[o.Construct] = true
			}
		}
		c.expect("BadRawCompare", hit["fixtures/fx.BadRawCompare"], true, "comparer discipline: bytes.Compare on keys")
		c.expect("BadStringCompare", hit["fixtures/fx.BadStringCompare"], true, "comparer discipline: string(a) < string(b) on keys")
		c.expect("GoodOrder", hit["fixtures/fx.GoodOrder"], false, "comparer discipline: no raw comparison")
	},
	"fresh": func(c *ctl) {
		fc := newFresh(c.fx)
		if f := c.fn("(*S).BadAlias"); f != nil {
			ok, _ := fc.fnResultFresh(f, 0)
			c.expect("(*S).BadAlias", !ok, true, "E-FLOW freshness: a getter returning a sub-slice of shared storage")
		}
		if f := c.fn("(*S).GoodCopy"); f != nil {
			ok, _ := fc.fnResultFresh(f, 0)
			c.expect("(*S).GoodCopy", !ok, false, "E-FLOW freshness: a getter returning append([]byte(nil), …)")
		}
	},
	"flow": func(c *ctl) {
		tc := newTaint(c.fx)
		if f := c.fn("(*S).BadRetain"); f != nil {
			c.expect("(*S).BadRetain", len(tc.analyzeParam(f, 1).issues) > 0, true, "E-FLOW taint: a parameter stored into a struct field")
		}
		if f := c.fn("(*S).BadScribble"); f != nil {
			c.expect("(*S).BadScribble", len(tc.analyzeParam(f, 1).issues) > 0, true, "E-FLOW taint: a parameter written through")
		}
		if f := c.fn("(*S).GoodCopyIn"); f != nil {
			c.expect("(*S).GoodCopyIn", len(tc.analyzeParam(f, 1).issues) > 0, false, "E-FLOW taint: a parameter only copied from")
		}
	},
	"err": func(c *ctl) {
		ds := droppedErrors(c.fx, []string{"fixtures/fx"})
		hit := false
		for _, d := range ds {
			if fnName(d.fn) == "fixtures/fx.BadDroppedError" && d.callee == "fixtures/fx.syncIt" {
				hit = true
			}
		}
		c.expect("BadDroppedError", hit, true, "E-ERR: an unused error result is listed")
		clean := true
		for _, d := range ds {
			if fnName(d.fn) == "fixtures/fx.GoodPublish" {
				clean = false
			}
		}
		c.expect("GoodPublish", !clean, false, "E-ERR: a tested error result is not listed")
	},
	"gby": func(c *ctl) {
		tab := gbyTable{fields: []gbyField{{"fixtures/fx.S", "n", "fixtures/fx.S.mu"}}, requires: map[string][]string{}, exceptions: map[string]string{}}
		sub := newReport("ctl", "quick", 0, "")
		ruleGuardedBy(c.fx, sub, "ctl", "", []string{"fixtures/fx"}, tab, 0)
		hit := map[string]bool{}
		for _, o := range sub.Obls {
			if o.Status == "violation" {
				hit[o.Construct] = true
			}
		}
		c.expect("(*S).BadUnguarded", hit["(*fixtures/fx.S).BadUnguarded"], true, "E-GBY: a guarded field written without its lock")
		c.expect("(*S).GoodGuarded", hit["(*fixtures/fx.S).GoodGuarded"], false, "E-GBY: a guarded field written under its lock")
	},
	"exh": func(c *ctl) {
		// exhaustiveness rules take their obligations from go/types method sets: the fixture type must list all its exported methods
		sp := c.fx.ByRel["fixtures/fx"]
		n := 0
		if sp != nil {
			if nm, ok := sp.Pkg.Scope().Lookup("S").Type().(*types.Named); ok {
				for i := 0; i < nm.NumMethods(); i++ {
					if nm.Method(i).Exported() {
						n++
					}
				}
			}
		}
		c.expect("S.methods", n >= 10, true, "E-EXH: the method set is enumerated from go/types")
	},
	"reach": func(c *ctl) {
		a, b := c.fn("BadOrder"), c.fn("setMeta")
		if a != nil && b != nil {
			c.expect("reach(BadOrder→setMeta)", reachableFrom(c.fx.CG(), a)[b], true, "E-REACH: call-graph reachability")
			c.expect("reach(setMeta→BadOrder)", reachableFrom(c.fx.CG(), b)[a], false, "E-REACH: call-graph reachability (negative)")
		}
	},
	"chan": func(c *ctl) {
		if f := c.fn("(*S).BadBlockingSend"); f != nil {
			ops := chanOps(f)
			c.expect("(*S).BadBlockingSend", len(ops) == 1 && ops[0].kind == "send" && ops[0].block, true, "channel inventory: plain blocking send is listed")
		}
		if f := c.fn("(*S).GoodSelectSend"); f != nil {
			ops := chanOps(f)
			c.expect("(*S).GoodSelectSend", len(ops) == 1 && ops[0].kind == "select" && len(ops[0].chans) == 2, true, "channel inventory: select cases are recovered")
		}
	},
}
