package main

// runControls runs the positive/negative controls of the engines used by property id on the
// fixture package (tiny known-bad and known-good functions): the rule must fire on the bad
// ones and stay silent on the good ones, on every run.
func runControls(id string, fx *Prog, r *Report) {
	for _, c := range controls {
		if c.props[id] || c.props["*"] {
			c.run(fx, r, id)
		}
	}
}

type control struct {
	props map[string]bool
	run   func(fx *Prog, r *Report, id string)
}

var controls []control

func propset(ids ...string) map[string]bool {
	m := map[string]bool{}
	for _, i := range ids {
		m[i] = true
	}
	return m
}
