package main

import (
	"fmt"
	"sort"
	"strings"

	"golang.org/x/tools/go/ssa"
)

// ruleSessionRecordCodec: the manifest is a sequence of sessionRecord.encode outputs read back by
// sessionRecord.decode at every open. The two are siblings: for every tag the writer emits, the
// reader has a case that reads the same number of fields, of the same wire kinds, in the same
// order, and stores them in the record fields the writer read them from.
func ruleSessionRecordCodec(p *Prog, r *Report, rule string) {
	r.Begin(rule, "E-SIB", "manifest record codec: for every tag written by sessionRecord.encode, sessionRecord.decode has a case that reads the same sequence of wire kinds (uvarint / varint / length-prefixed bytes) and stores the values into the fields the encoder took them from (tag by tag, field by field); every decoded tag is a declared tag constant", 8)
	defer r.End()
	enc := resolveFn(p, r, "leveldb", "(*sessionRecord).encode")
	dec := resolveFn(p, r, "leveldb", "(*sessionRecord).decode")
	if enc == nil || dec == nil {
		return
	}
	type fld struct{ kind, name string }
	putKind := map[string]string{
		"(*leveldb.sessionRecord).putUvarint": "uvarint",
		"(*leveldb.sessionRecord).putVarint":  "varint",
		"(*leveldb.sessionRecord).putBytes":   "bytes",
	}
	readKind := map[string]string{
		"(*leveldb.sessionRecord).readUvarint": "uvarint",
		"(*leveldb.sessionRecord).readLevel":   "uvarint",
		"(*leveldb.sessionRecord).readVarint":  "varint",
		"(*leveldb.sessionRecord).readBytes":   "bytes",
	}
	fieldName := func(v ssa.Value) string {
		v = stripConv(v)
		switch x := v.(type) {
		case *ssa.UnOp:
			if _, f, _, ok := fieldOf(x.X); ok {
				return f
			}
		case *ssa.Field:
			if _, f, _, ok := fieldOf(x); ok {
				return f
			}
		}
		return "?"
	}
	// encoder: per basic block, a put of a constant tag followed by the field puts
	encTags := map[int64][]fld{}
	for _, b := range enc.Blocks {
		var cur int64 = -1
		for _, in := range b.Instrs {
			c, ok := in.(*ssa.Call)
			if !ok {
				continue
			}
			f := staticCallee(&c.Call)
			if f == nil {
				continue
			}
			k, isPut := putKind[fnName(f)]
			if !isPut {
				continue
			}
			arg := c.Call.Args[2]
			if t, isC := constInt(arg); isC && k == "uvarint" && cur < 0 {
				cur = t
				encTags[cur] = []fld{}
				continue
			}
			if cur >= 0 {
				encTags[cur] = append(encTags[cur], fld{k, fieldName(arg)})
			}
		}
	}
	// decoder: case blocks: `rec == const` true edge → reads in order → setter
	decTags := map[int64][]fld{}
	decSetter := map[int64]string{}
	setterFields := func(f *ssa.Function) []string {
		// parameter i (after the receiver) → name of the field it is stored into
		out := make([]string, len(f.Params))
		for i := range out {
			out[i] = "?"
		}
		instrs(f, func(_ *ssa.BasicBlock, _ int, in ssa.Instruction) {
			st, ok := in.(*ssa.Store)
			if !ok {
				return
			}
			_, fn, _, ok := fieldOf(st.Addr)
			if !ok {
				return
			}
			for i, pa := range f.Params {
				if stripConv(st.Val) == ssa.Value(pa) {
					out[i] = fn
				}
			}
		})
		return out
	}
	for _, b := range dec.Blocks {
		iff, ok := b.Instrs[len(b.Instrs)-1].(*ssa.If)
		if !ok {
			continue
		}
		bo, ok := iff.Cond.(*ssa.BinOp)
		if !ok {
			continue
		}
		tag, isC := constInt(bo.Y)
		if !isC {
			continue
		}
		if _, isRead := callValue(bo.X, "(*leveldb.sessionRecord).readUvarintMayEOF"); !isRead {
			continue
		}
		// walk the case body: follow single-successor / fallthrough blocks collecting reads until the setter
		var reads []ssa.Value
		var kinds []string
		seen := map[*ssa.BasicBlock]bool{}
		var walk func(blk *ssa.BasicBlock)
		walk = func(blk *ssa.BasicBlock) {
			if seen[blk] {
				return
			}
			seen[blk] = true
			for _, in := range blk.Instrs {
				c, ok := in.(*ssa.Call)
				if !ok {
					continue
				}
				f := staticCallee(&c.Call)
				if f == nil {
					continue
				}
				if k, isR := readKind[fnName(f)]; isR {
					reads = append(reads, c)
					kinds = append(kinds, k)
					continue
				}
				n := f.Name()
				if strings.HasPrefix(n, "set") || strings.HasPrefix(n, "add") || strings.HasPrefix(n, "del") {
					decSetter[tag] = fnName(f)
					sf := setterFields(f)
					var fl []fld
					for j, rd := range reads {
						name := "?"
						for ai, a := range c.Call.Args {
							if stripConv(a) == rd && ai < len(sf) {
								name = sf[ai]
							}
							// string(x) / internalKey(x) conversions
							if cv, ok := a.(*ssa.Convert); ok && cv.X == rd && ai < len(sf) {
								name = sf[ai]
							}
							if cv, ok := a.(*ssa.ChangeType); ok && cv.X == rd && ai < len(sf) {
								name = sf[ai]
							}
						}
						fl = append(fl, fld{kinds[j], name})
					}
					decTags[tag] = fl
					return
				}
			}
			for _, s := range blk.Succs {
				// stay inside the case: do not follow the loop back edge (the block that re-reads the header)
				if countInstrBlock(s, evCall("(*leveldb.sessionRecord).readUvarintMayEOF")) > 0 {
					continue
				}
				walk(s)
			}
		}
		walk(b.Succs[0])
	}
	var tags []int64
	for t := range encTags {
		tags = append(tags, t)
	}
	sort.Slice(tags, func(i, j int) bool { return tags[i] < tags[j] })
	for _, t := range tags {
		r.Site(1)
		e, d := encTags[t], decTags[t]
		es, ds := fmt.Sprint(e), fmt.Sprint(d)
		name := fmt.Sprintf("tag %d", t)
		if d == nil {
			r.Fail("sessionRecord.encode~decode", "tag-unread:"+name, "every tag written has a decoder case", name+" is written by encode but decode has no case for it: the rest of the record is misparsed", p.Pos(dec.Pos()), nil)
			continue
		}
		r.Check(es == ds, "sessionRecord.encode~decode", "fields-agree:"+name, "encoder and decoder agree on the fields of "+name+" (kind and record field, in order)", "encode writes "+es+" but decode reads "+ds+" (via "+decSetter[t]+")", p.Pos(dec.Pos()))
	}
	r.Check(len(tags) >= 7, "sessionRecord.encode~decode", "tags-found", "the encoder's tags were identified", fmt.Sprintf("%d tags", len(tags)), p.Pos(enc.Pos()))
	// tags read but never written are tolerated only if declared (compatibility: recPrevJournalNum)
	for t := range decTags {
		if _, ok := encTags[t]; !ok {
			r.Site(1)
			r.OK("sessionRecord.encode~decode", fmt.Sprintf("read-only-tag:%d", t), "a tag that is only read (compatibility with older manifests)")
		}
	}
}

func countInstrBlock(b *ssa.BasicBlock, pred InstrPred) int {
	n := 0
	for _, in := range b.Instrs {
		if pred(in) {
			n++
		}
	}
	return n
}
