package main

import (
	"fmt"
	"go/types"
	"strings"

	"golang.org/x/tools/go/ssa"
)

// C01.1 comparer discipline: in the engine packages no ordering/equality decision on key bytes
// bypasses the configured comparer.

var rawCmpFuncs = map[string]bool{
	"bytes.Compare": true, "bytes.Equal": true, "bytes.HasPrefix": true, "bytes.HasSuffix": true,
	"bytes.Index": true, "bytes.Contains": true, "bytes.EqualFold": true, "bytes.LastIndex": true,
	"strings.Compare": true, "strings.EqualFold": true,
}

// reviewed raw comparisons that are not on user/internal keys
var rawCmpAllowed = map[string]string{
	"leveldb/table.NewReader|string==":                             "footer magic and metaindex entry names (\"filter.<name>\"), not user keys",
	"leveldb/table.NewReader|strings.HasPrefix":                    "metaindex entry name prefix \"filter.\"",
	"(*leveldb.session).recover|string==":                          "comparer NAME recorded in the manifest vs configured comparer name",
	"(*leveldb.sessionRecord).readUvarintMayEOF|strings.HasPrefix": "classifying encoding/binary error text",
	"(*leveldb.DB).GetProperty|strings.HasPrefix":                  "property name parsing",
	"(*leveldb.DB).GetProperty|string==":                           "property name parsing",
}

var cmpPkgs = []string{"leveldb", "leveldb/table", "leveldb/memdb", "leveldb/iterator"}

func isByteSlice(t types.Type) bool {
	s, ok := t.Underlying().(*types.Slice)
	if !ok {
		return false
	}
	b, ok := s.Elem().Underlying().(*types.Basic)
	return ok && b.Kind() == types.Byte
}

func isStringT(t types.Type) bool {
	b, ok := t.Underlying().(*types.Basic)
	return ok && b.Info()&types.IsString != 0
}

func ruleComparerDiscipline(p *Prog, r *Report, rule string, pkgs []string, files func(string) bool) {
	r.Begin(rule, "E-REACH", "comparer discipline: in "+strings.Join(pkgs, ", ")+" no raw byte/string comparison primitive (bytes.Compare/Equal/HasPrefix/…, string(x) <op> string(y)) is applied to key material; every ordering/equality decision on keys goes through the configured comparer", 1)
	defer r.End()
	nfn := 0
	for _, pk := range pkgs {
		for _, fn := range p.SrcFuncs(pk) {
			if files != nil && !files(p.Fset.Position(fn.Pos()).Filename) {
				continue
			}
			nfn++
			name := fnName(fn)
			instrs(fn, func(_ *ssa.BasicBlock, _ int, in ssa.Instruction) {
				switch x := in.(type) {
				case *ssa.Call, *ssa.Defer, *ssa.Go:
					cc := callCommon(in)
					cn := calleeName(cc)
					if rawCmpFuncs[cn] || cn == "strings.HasPrefix" || cn == "strings.HasSuffix" {
						key := name + "|" + cn
						if why, ok := rawCmpAllowed[key]; ok {
							r.OK(name, "reviewed:"+cn, "reviewed non-key comparison: "+why)
							return
						}
						// strings.HasPrefix/HasSuffix on values not derived from []byte are not key comparisons
						if (cn == "strings.HasPrefix" || cn == "strings.HasSuffix") && !anyArgFromBytes(cc) {
							return
						}
						r.Fail(name, "raw-comparison:"+cn, "no raw byte comparison on keys", fmt.Sprintf("%s at %s compares bytes without the configured comparer", cn, p.Pos(in.Pos())), p.Pos(in.Pos()), nil)
					}
				case *ssa.UnOp:
					if g, ok := x.X.(*ssa.Global); ok && g.Pkg != nil && g.Pkg.Pkg.Path() == modPath+"leveldb/comparer" && g.Name() == "DefaultComparer" {
						r.Fail(name, "hard-wired-default-comparer", "the engine never hard-wires the bytewise comparer", "comparer.DefaultComparer used at "+p.Pos(x.Pos())+" instead of the configured comparer", p.Pos(x.Pos()), nil)
					}
				case *ssa.BinOp:
					if !isCmpOp(x.Op) || !isStringT(x.X.Type()) {
						return
					}
					if fromBytes(x.X) || fromBytes(x.Y) {
						key := name + "|string=="
						if why, ok := rawCmpAllowed[key]; ok {
							r.OK(name, "reviewed:string-compare", "reviewed non-key comparison: "+why)
							return
						}
						r.Fail(name, "raw-comparison:string(bytes)", "no raw string(bytes) comparison on keys", fmt.Sprintf("string(...) %s string(...) at %s compares bytes without the configured comparer", x.Op, p.Pos(x.Pos())), p.Pos(x.Pos()), nil)
					}
				}
			})
			r.Fn(name)
		}
	}
	r.Site(nfn)
	if nfn > 0 {
		r.OK("packages:"+strings.Join(pkgs, ","), "scanned", fmt.Sprintf("%d functions scanned for raw comparisons", nfn))
	}
}

func fromBytes(v ssa.Value) bool {
	if c, ok := v.(*ssa.Convert); ok {
		return isByteSlice(c.X.Type())
	}
	return false
}

func anyArgFromBytes(cc *ssa.CallCommon) bool {
	for _, a := range cc.Args {
		if fromBytes(a) {
			return true
		}
	}
	return false
}
