package main

import (
	"golang.org/x/tools/go/ssa"
)

// ruleReleaseOnce: util.BasicReleaser is embedded in every iterator; its releaser is what drops
// the version reference / memdb reference / cache handle the iterator pinned. Release() may be
// called any number of times (documented), so the inner releaser must run at most once: it is
// called only under ¬released ∧ releaser≠nil, and every path through the call then marks the
// object released (or forgets the releaser) before returning. A second inner Release would drop a
// reference the iterator does not own: files of a live version are deleted under a reader.
func ruleReleaseOnce(p *Prog, r *Report, rule string) {
	r.Begin(rule, "E-GUARD", "util.BasicReleaser.Release runs the attached releaser at most once: called only under ¬released ∧ releaser≠nil, and every path through the call stores released=true or releaser=nil before returning; SetReleaser refuses a released object", 3)
	defer r.End()
	const T = "leveldb/util.BasicReleaser"
	fn := resolveFn(p, r, "leveldb/util", "(*BasicReleaser).Release")
	if fn == nil {
		return
	}
	inner := func(in ssa.Instruction) bool {
		c, ok := in.(*ssa.Call)
		return ok && c.Call.IsInvoke() && c.Call.Method.Name() == "Release" && isFieldLoad(c.Call.Value, T, "releaser")
	}
	released := boolAtom("r.released", mFieldLoad(T, "released"))
	hasRel := nilAtom("r.releaser==nil", mFieldLoad(T, "releaser"))
	checkGuard(p, r, GuardSpec{Rule: "inner-release-guarded", Fn: fn, Target: inner, TargetDesc: "r.releaser.Release()", Atoms: []Atom{released, hasRel}, G: func(a []bool) bool { return !a[0] && !a[1] }, GDesc: "¬r.released ∧ r.releaser≠nil", MinTargets: 1})
	mark := func(in ssa.Instruction) bool {
		st, ok := in.(*ssa.Store)
		if !ok {
			return false
		}
		if isFieldAddr(st.Addr, T, "released") {
			b, isC := constBool(st.Val)
			return isC && b
		}
		if isFieldAddr(st.Addr, T, "releaser") {
			c, isC := st.Val.(*ssa.Const)
			return isC && c.IsNil()
		}
		return false
	}
	r.Site(1)
	if w := findPath(after(fn, inner), nil, mark, isReturn); w != nil {
		r.Fail(fnName(fn), "released-marked", "after the inner release the object is marked released (or forgets the releaser) on every path", "a path returns after r.releaser.Release() without released=true / releaser=nil: the next Release() drops the pinned reference a second time", p.posOfLast(w, isReturn), p.renderPath(w))
	} else {
		r.OK(fnName(fn), "released-marked", "after the inner release the object is marked released (or forgets the releaser) on every path")
	}
	// the released flag is set on every path (Released() is what the movement methods test)
	r.Site(1)
	setRel := func(in ssa.Instruction) bool {
		st, ok := in.(*ssa.Store)
		if !ok || !isFieldAddr(st.Addr, T, "released") {
			return false
		}
		b, isC := constBool(st.Val)
		return isC && b
	}
	if w := findPath(entryPoint(fn), atomEdges([]Atom{released}, []bool{false}), setRel, isReturn); w != nil {
		r.Fail(fnName(fn), "always-marks-released", "Release() leaves the object released", "a path of the first Release() returns without released=true: released iterators keep answering", p.posOfLast(w, isReturn), p.renderPath(w))
	} else {
		r.OK(fnName(fn), "always-marks-released", "Release() leaves the object released")
	}
}
