package main

import (
	"fmt"
	"go/token"
	"go/types"
	"os"
	"sort"
	"strings"

	"golang.org/x/tools/go/callgraph"
	"golang.org/x/tools/go/callgraph/cha"
	"golang.org/x/tools/go/callgraph/vta"
	"golang.org/x/tools/go/packages"
	"golang.org/x/tools/go/ssa"
	"golang.org/x/tools/go/ssa/ssautil"
)

const modPath = "github.com/syndtr/goleveldb/"

// Prog is the loaded, type-checked, SSA-built program plus lazily built call graph.
type Prog struct {
	Fset   *token.FileSet
	Pkgs   []*packages.Package
	SSA    *ssa.Program
	ByRel  map[string]*ssa.Package // "leveldb", "leveldb/table", ...
	PPkg   map[string]*packages.Package
	cg     *callgraph.Graph
	chaCG  *callgraph.Graph
	Dir    string
	GOOS   string
	GOARCH string

	allFns map[*ssa.Function]bool
}

// loadProg loads ./leveldb/... from dir. Fails hard on any type error or if fewer
// than minPkgs packages were loaded.
func loadProg(dir, goos, goarch string, patterns []string, minPkgs int) (*Prog, error) {
	env := append(os.Environ(),
		"GOFLAGS=-mod=mod", "GOPROXY=off", "GOSUMDB=off", "GOTOOLCHAIN=local", "GOWORK=off", "CGO_ENABLED=0")
	if goos != "" {
		env = append(env, "GOOS="+goos)
	}
	if goarch != "" {
		env = append(env, "GOARCH="+goarch)
	}
	cfg := &packages.Config{
		Mode:  packages.LoadAllSyntax,
		Dir:   dir,
		Env:   env,
		Tests: false,
	}
	normalised := false
	if !strings.Contains(dir, "/fixtures") {
		if loadOverlay != nil {
			cfg.Overlay = loadOverlay
		}
		// new helper functions are inlined at source level before the rules look (normalize.go)
		if ov := normalizeNewHelpers(dir, env, loadOverlay); ov != nil {
			cfg.Overlay = ov
			normalised = true
		}
	}
	pkgs, err := packages.Load(cfg, patterns...)
	if err != nil {
		return nil, fmt.Errorf("packages.Load: %v", err)
	}
	if normalised {
		bad := false
		packages.Visit(pkgs, nil, func(p *packages.Package) {
			if len(p.Errors) > 0 {
				bad = true
			}
		})
		if bad {
			normNotes = append(normNotes, "normalised tree failed to load: analysing the tree as it is")
			cfg.Overlay = loadOverlay
			pkgs, err = packages.Load(cfg, patterns...)
			if err != nil {
				return nil, fmt.Errorf("packages.Load: %v", err)
			}
		}
	}
	var errs []string
	packages.Visit(pkgs, nil, func(p *packages.Package) {
		for _, e := range p.Errors {
			errs = append(errs, e.Error())
		}
	})
	if len(errs) > 0 {
		sort.Strings(errs)
		if len(errs) > 10 {
			errs = errs[:10]
		}
		return nil, fmt.Errorf("load/type errors: %s", strings.Join(errs, "; "))
	}
	if len(pkgs) < minPkgs {
		return nil, fmt.Errorf("only %d packages loaded (need >= %d)", len(pkgs), minPkgs)
	}
	prog, spkgs := ssautil.AllPackages(pkgs, ssa.GlobalDebug)
	prog.Build()
	p := &Prog{Fset: pkgs[0].Fset, Pkgs: pkgs, SSA: prog, ByRel: map[string]*ssa.Package{}, PPkg: map[string]*packages.Package{}, Dir: dir, GOOS: goos, GOARCH: goarch}
	for i, sp := range spkgs {
		if sp == nil {
			return nil, fmt.Errorf("no SSA for package %s", pkgs[i].PkgPath)
		}
		rel := strings.TrimPrefix(pkgs[i].PkgPath, modPath)
		p.ByRel[rel] = sp
		p.PPkg[rel] = pkgs[i]
	}
	return p, nil
}

func (p *Prog) AllFunctions() map[*ssa.Function]bool {
	if p.allFns == nil {
		p.allFns = ssautil.AllFunctions(p.SSA)
	}
	return p.allFns
}

// CG returns the VTA call graph (seeded by CHA).
func (p *Prog) CG() *callgraph.Graph {
	if p.cg == nil {
		p.chaCG = cha.CallGraph(p.SSA)
		p.cg = vta.CallGraph(p.AllFunctions(), p.chaCG)
	}
	return p.cg
}

func (p *Prog) CHA() *callgraph.Graph {
	p.CG()
	return p.chaCG
}

// Fn resolves "pkgrel" + "Func" | "(*T).M" | "T.M" | "Func$1" (anonymous functions by
// 1-based index, nested with further $k). Returns nil if not found.
func (p *Prog) Fn(pkgrel, name string) *ssa.Function {
	sp := p.ByRel[pkgrel]
	if sp == nil {
		return nil
	}
	parts := strings.Split(name, "$")
	base := parts[0]
	var fn *ssa.Function
	if strings.HasPrefix(base, "(") || strings.Contains(base, ".") {
		// method
		ptr := false
		tn, mn := "", ""
		if strings.HasPrefix(base, "(*") {
			ptr = true
			i := strings.Index(base, ")")
			tn = base[2:i]
			mn = base[i+2:]
		} else {
			i := strings.Index(base, ".")
			tn = base[:i]
			mn = base[i+1:]
		}
		obj := sp.Pkg.Scope().Lookup(tn)
		if obj == nil {
			return nil
		}
		var T types.Type = obj.Type()
		if ptr {
			T = types.NewPointer(T)
		}
		ms := p.SSA.MethodSets.MethodSet(T)
		for i := 0; i < ms.Len(); i++ {
			sel := ms.At(i)
			if sel.Obj().Name() == mn {
				// only methods declared directly (not promoted)
				fn = p.SSA.MethodValue(sel)
				break
			}
		}
		if fn == nil && !ptr {
			// maybe declared on pointer receiver
			ms = p.SSA.MethodSets.MethodSet(types.NewPointer(T))
			for i := 0; i < ms.Len(); i++ {
				sel := ms.At(i)
				if sel.Obj().Name() == mn {
					fn = p.SSA.MethodValue(sel)
					break
				}
			}
		}
		// unwrap synthetic wrappers to the declared function
		if fn != nil && fn.Synthetic != "" {
			if o, ok := fn.Object().(*types.Func); ok {
				if f2 := p.SSA.FuncValue(o); f2 != nil {
					fn = f2
				}
			}
		}
	} else {
		fn = sp.Func(base)
	}
	if fn == nil {
		return nil
	}
	for _, idx := range parts[1:] {
		var k int
		fmt.Sscanf(idx, "%d", &k)
		if k < 1 || k > len(fn.AnonFuncs) {
			return nil
		}
		fn = fn.AnonFuncs[k-1]
	}
	return fn
}

// SrcFuncs returns all source-level functions (incl. methods and anonymous functions) of
// the given package, sorted by position.
func (p *Prog) SrcFuncs(pkgrel string) []*ssa.Function {
	sp := p.ByRel[pkgrel]
	if sp == nil {
		return nil
	}
	var out []*ssa.Function
	var add func(f *ssa.Function)
	add = func(f *ssa.Function) {
		if f == nil || f.Blocks == nil {
			return
		}
		out = append(out, f)
		for _, a := range f.AnonFuncs {
			add(a)
		}
	}
	for fn := range p.AllFunctions() {
		if fn.Pkg == sp && fn.Parent() == nil && fn.Synthetic == "" {
			add(fn)
		}
	}
	sort.Slice(out, func(i, j int) bool {
		if out[i].Pos() != out[j].Pos() {
			return out[i].Pos() < out[j].Pos()
		}
		return out[i].String() < out[j].String()
	})
	return out
}

func (p *Prog) Pos(pos token.Pos) string {
	if !pos.IsValid() {
		return "-"
	}
	ps := p.Fset.Position(pos)
	f := ps.Filename
	if i := strings.Index(f, "/leveldb/"); i >= 0 {
		f = f[i+1:]
	}
	return fmt.Sprintf("%s:%d", f, ps.Line)
}

// fnName gives a stable, short construct name: leveldb.(*DB).writeLocked, leveldb.recoverTable$1
func fnName(fn *ssa.Function) string {
	if fn == nil {
		return "<nil>"
	}
	s := fn.String()
	s = strings.ReplaceAll(s, modPath, "")
	return s
}

// engine packages: everything except testutil and manualtest
var enginePkgs = []string{
	"leveldb", "leveldb/cache", "leveldb/comparer", "leveldb/errors", "leveldb/filter",
	"leveldb/iterator", "leveldb/journal", "leveldb/memdb", "leveldb/opt", "leveldb/storage",
	"leveldb/table", "leveldb/util",
}
