package main

import (
	"fmt"

	"golang.org/x/tools/go/ssa"
)

// ruleDstOwnership: tFiles.getOverlaps(dst, …) builds its result IN dst's backing array (level-0
// branch: dst = dst[:0]; append…). Passing an existing set as dst is therefore only sound when
// that set is dead afterwards (the result replaces it). A speculative candidate (e.g. the grown
// input set of compaction.expand, which may be rejected) must be built in fresh storage, or the
// set the caller goes on using is silently clobbered.
func ruleDstOwnership(p *Prog, r *Report, rule string) {
	r.Begin(rule, "E-FLOW", "buffer ownership of tFiles.getOverlaps(dst, …): a non-nil dst is dead after the call — no instruction reachable from the call uses the old value (its storage now holds the result); speculative candidates are built with dst == nil", 3)
	defer r.End()
	n := 0
	for _, fn := range p.SrcFuncs("leveldb") {
		for _, c := range findCalls(fn, "(leveldb.tFiles).getOverlaps") {
			call, ok := c.(*ssa.Call)
			if !ok {
				continue
			}
			n++
			r.Site(1)
			r.Fn(fnName(fn))
			d := call.Call.Args[1]
			if isNilConst(d) {
				r.OK(fnName(fn), "fresh-dst@"+branchLabel(c), "result built in fresh storage")
				continue
			}
			// blocks reachable from the call (the rest of its block counts via index)
			reach := map[*ssa.BasicBlock]bool{}
			var stack []*ssa.BasicBlock
			// re-entering the block that defines d (a loop-carried phi) creates a NEW instance of d:
			// uses from there on are not uses of the value that was passed
			var barrier *ssa.BasicBlock
			if di, ok := d.(ssa.Instruction); ok {
				barrier = di.Block()
			}
			for _, s := range call.Block().Succs {
				if s == barrier {
					continue
				}
				if !reach[s] {
					reach[s] = true
					stack = append(stack, s)
				}
			}
			for len(stack) > 0 {
				b := stack[len(stack)-1]
				stack = stack[:len(stack)-1]
				for _, s := range b.Succs {
					if s == barrier {
						continue
					}
					if !reach[s] {
						reach[s] = true
						stack = append(stack, s)
					}
				}
			}
			after := func(in ssa.Instruction) bool {
				if in.Block() == call.Block() && !reach[call.Block()] {
					return indexOf(in) > indexOf(call)
				}
				return reach[in.Block()] || (in.Block() == call.Block() && indexOf(in) > indexOf(call))
			}
			bad := ""
			check := func(v ssa.Value) {
				refs := v.Referrers()
				if refs == nil {
					return
				}
				for _, ref := range *refs {
					if ref == ssa.Instruction(call) {
						continue
					}
					switch x := ref.(type) {
					case *ssa.DebugRef:
					case *ssa.Phi:
						for k, e := range x.Edges {
							if e == v {
								pb := x.Block().Preds[k]
								if reach[pb] || pb == call.Block() {
									bad = p.Pos(x.Pos())
									if bad == "-" || bad == "" {
										bad = fmt.Sprintf("a merge in block %d", x.Block().Index)
									}
								}
							}
						}
					default:
						if after(ref) {
							bad = p.Pos(ref.Pos())
						}
					}
				}
			}
			check(d)
			r.Check(bad == "", fnName(fn), "dst-dead-after-call@"+branchLabel(c), "the set passed as dst is not used again after getOverlaps built its result in that storage", "the old value of the set passed as dst at "+p.Pos(c.Pos())+" is still used at "+bad+": if the candidate is rejected the caller continues with a clobbered set (wrong compaction inputs → overlapping tables)", p.Pos(c.Pos()))
		}
	}
	r.Check(n >= 5, "leveldb", "sites", "getOverlaps call sites", fmt.Sprintf("%d", n), "")
}

// ruleOverlapResultOwned: the table sets returned by tFiles.getOverlaps are appended to by their
// callers (compaction.expand: append(t0, t1...)). They must therefore be storage the caller owns —
// a fresh slice or the dst it passed in — never a sub-slice of the level itself (tf[begin:end]
// has spare capacity that IS the following tables of the live version's level).
func ruleOverlapResultOwned(p *Prog, r *Report, rule string) {
	r.Begin(rule, "E-FLOW", "tFiles.getOverlaps returns caller-owned storage: every returned value is nil, a fresh make (filled by copy), or built by append onto the caller's dst — never a sub-slice of the receiver (the live level), to which callers append", 2)
	defer r.End()
	fn := resolveFn(p, r, "leveldb", "tFiles.getOverlaps")
	if fn == nil {
		return
	}
	var recv *ssa.Parameter
	if len(fn.Params) > 0 {
		recv = fn.Params[0]
	}
	owned := func(v ssa.Value, _ int) bool {
		seen := map[ssa.Value]bool{}
		var rec func(v ssa.Value) bool
		rec = func(v ssa.Value) bool {
			v = stripConv(v)
			if seen[v] {
				return true
			}
			seen[v] = true
			switch x := v.(type) {
			case *ssa.Const:
				return x.Value == nil
			case *ssa.MakeSlice:
				return true
			case *ssa.Parameter:
				return x != recv && x.Name() == "dst"
			case *ssa.Slice:
				return rec(x.X)
			case *ssa.Phi:
				for _, e := range x.Edges {
					if !rec(e) {
						return false
					}
				}
				return true
			case *ssa.Call:
				if isCallTo(x, "builtin:append") {
					return rec(x.Call.Args[0])
				}
			case *ssa.UnOp:
				// a local cell
				sts := cellStores(x.X)
				if len(sts) == 0 {
					return false
				}
				for _, st := range sts {
					if !rec(st) {
						return false
					}
				}
				return true
			}
			return false
		}
		return rec(v)
	}
	n := 0
	instrs(fn, func(_ *ssa.BasicBlock, _ int, in ssa.Instruction) {
		ret, ok := in.(*ssa.Return)
		if !ok || len(ret.Results) != 1 {
			return
		}
		n++
		r.Site(1)
		v := retValue(ret, ret.Results[0])
		r.Check(owned(v, 8), fnName(fn), "result-owned@"+branchLabel(ret), "the returned table set is caller-owned storage", "the value returned at "+p.Pos(ret.Pos())+" can be a sub-slice of the level itself: a caller's append(t0, t1...) then overwrites the following tables of the live version", p.Pos(ret.Pos()))
	})
	r.Check(n >= 2, fnName(fn), "returns", "getOverlaps has its return sites", fmt.Sprintf("%d", n), p.Pos(fn.Pos()))
}

// ruleLevelsImmutable: the table slices of an installed version (version.levels[i]) are shared by
// readers, by later versions that carry a level over unchanged, and by the reference loop. Nothing
// may append to, re-slice-and-append, sort or store into such a slice in place; new levels are
// built in fresh storage.
func ruleLevelsImmutable(p *Prog, r *Report, rule string) {
	r.Begin(rule, "E-FLOW", "installed levels are immutable: within package leveldb no append has a base that is (a sub-slice of) version.levels[i], no element of such a slice is stored to, and no in-place sort is applied to it; (intraprocedural value flow through locals and phis)", 1)
	defer r.End()
	isLevel := func(v ssa.Value) bool {
		seen := map[ssa.Value]bool{}
		var rec func(v ssa.Value) bool
		rec = func(v ssa.Value) bool {
			v = stripConv(v)
			if seen[v] {
				return false
			}
			seen[v] = true
			switch x := v.(type) {
			case *ssa.UnOp:
				if ia, ok := x.X.(*ssa.IndexAddr); ok && isFieldLoad(ia.X, "leveldb.version", "levels") {
					return true
				}
				for _, st := range cellStores(x.X) {
					if rec(st) {
						return true
					}
				}
			case *ssa.Slice:
				return rec(x.X)
			case *ssa.Phi:
				for _, e := range x.Edges {
					if rec(e) {
						return true
					}
				}
			}
			return false
		}
		return rec(v)
	}
	n, sites := 0, 0
	for _, fn := range p.SrcFuncs("leveldb") {
		withAnons(fn, func(f *ssa.Function) {
			if f != fn && f.Parent() != fn {
				return
			}
			instrs(f, func(_ *ssa.BasicBlock, _ int, in ssa.Instruction) {
				switch x := in.(type) {
				case *ssa.Call:
					if isCallTo(x, "builtin:append") && namedOf(x.Type()) == "leveldb.tFiles" || (isCallTo(x, "builtin:append") && len(x.Call.Args) > 0 && isTFilesLike(x.Call.Args[0])) {
						sites++
						if isLevel(x.Call.Args[0]) {
							n++
							r.Fail(fnName(f), "append-onto-level@"+branchLabel(x), "no append onto an installed level", "append at "+p.Pos(x.Pos())+" uses (a sub-slice of) version.levels[i] as its base: spare capacity of that slice is the following tables of a live level", p.Pos(x.Pos()), nil)
						}
					}
					if isCallTo(x, "(leveldb.tFiles).sortByKey", "(leveldb.tFiles).sortByNum") {
						sites++
						if isLevel(x.Call.Args[0]) {
							n++
							r.Fail(fnName(f), "sort-of-level@"+branchLabel(x), "no in-place sort of an installed level", "sort at "+p.Pos(x.Pos())+" reorders a live level under its readers", p.Pos(x.Pos()), nil)
						}
					}
				case *ssa.Store:
					if ia, ok := x.Addr.(*ssa.IndexAddr); ok && isTFilesLike(ia.X) {
						sites++
						if isLevel(ia.X) {
							n++
							r.Fail(fnName(f), "store-into-level@"+branchLabel(x), "no element store into an installed level", "store at "+p.Pos(x.Pos())+" overwrites a table of a live level", p.Pos(x.Pos()), nil)
						}
					}
				}
			})
		})
	}
	r.Site(sites)
	if n == 0 {
		r.OK("leveldb", "levels-immutable", fmt.Sprintf("%d append/sort/element-store sites on table slices inspected, none targets an installed level", sites))
	}
}

func isTFilesLike(v ssa.Value) bool {
	n := namedOf(v.Type())
	if n == "leveldb.tFiles" {
		return true
	}
	return v.Type().String() == "[]*github.com/syndtr/goleveldb/leveldb.tFile"
}
