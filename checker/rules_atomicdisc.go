package main

import (
	"fmt"
	"sort"
	"strings"

	"golang.org/x/tools/go/ssa"
)

// reviewedPlainAtomicAccess: plain (non-atomic) accesses of fields that are elsewhere accessed
// through sync/atomic, each read and found harmless. Key: "type.field|function".
var reviewedPlainAtomicAccess = map[string]string{
	"leveldb.DB.seq|(*leveldb.DB).recoverJournal":                       "open: no other goroutine exists yet",
	"leveldb.DB.seq|(*leveldb.DB).recoverJournalRO":                     "open: no other goroutine exists yet",
	"leveldb.DB.seq|(*leveldb.DB).newMem":                               "read by the write-lock holder (or during open), the only writer of db.seq — stated in the source comment; other goroutines only load it",
	"leveldb.DB.seq|(*leveldb.DB).OpenTransaction":                      "read after the write lock was acquired: the holder is the only writer of db.seq",
	"leveldb.DB.seq|(*leveldb.DB).writeLocked":                          "read by the write-lock holder, the only writer of db.seq",
	"leveldb.session.ntVersionID|(*leveldb.session).close":              "session.close runs after the goroutines that spawn versions have stopped; the id labels the final placeholder version",
	"leveldb/util.BufferPool.equal|(*leveldb/util.BufferPool).String":   "statistics printed by String(); no property reads them",
	"leveldb/util.BufferPool.get|(*leveldb/util.BufferPool).String":     "statistics printed by String(); no property reads them",
	"leveldb/util.BufferPool.greater|(*leveldb/util.BufferPool).String": "statistics printed by String(); no property reads them",
	"leveldb/util.BufferPool.less|(*leveldb/util.BufferPool).String":    "statistics printed by String(); no property reads them",
	"leveldb/util.BufferPool.miss|(*leveldb/util.BufferPool).String":    "statistics printed by String(); no property reads them",
	"leveldb/util.BufferPool.put|(*leveldb/util.BufferPool).String":     "statistics printed by String(); no property reads them",
}

// reviewedAtomicStores: functions that overwrite (atomic Store) a field which other code updates by
// atomic read-modify-write; a store is a lost update unless nothing else can run. Key: "type.field|function".
var reviewedAtomicStores = map[string]string{
	"leveldb.DB.seq|(*leveldb.DB).setSeq":                             "called from Transaction.Commit only (C05.1 only-commit-sets), which holds the write lock: nobody else adds",
	"leveldb.session.stNextFileNum|(*leveldb.session).setNextFileNum": "called from session.recover only (C06.19 store-only-at-recovery)",
	"leveldb/cache.Cache.mHead|(*leveldb/cache.Cache).Close":          "under the cache's exclusive lock; every compare-and-swap of the head runs under the shared lock",
	"leveldb/cache.Node.ref|(*leveldb/cache.Cache).Close$1":           "force-close zeroes the count on purpose so that late releases do not finalise again (the exception C17 states)",
}

// ruleAtomicDiscipline: a struct field that is accessed through sync/atomic anywhere is shared
// between goroutines without a lock; then every access must be atomic (a plain read can tear or be
// cached, a plain write races), and where the field is updated by atomic read-modify-write
// (Add / CompareAndSwap) a blind atomic Store elsewhere loses concurrent updates.
func ruleAtomicDiscipline(p *Prog, r *Report, rule string, dump bool) {
	r.Begin(rule, "E-GBY", "fields accessed through sync/atomic are accessed ONLY through sync/atomic (initialisation of a freshly allocated object excepted), and a field updated by atomic add / compare-and-swap is overwritten by an atomic store only in the reviewed places", 35)
	defer r.End()
	type acc struct {
		fn   *ssa.Function
		in   ssa.Instruction
		op   string // atomic function name, or "plain-load"/"plain-store"/"addr-escapes"
		init bool   // on a freshly allocated object
	}
	fields := map[string][]acc{}
	atomicField := map[string]bool{}
	for _, pk := range enginePkgs {
		for _, fn := range p.SrcFuncs(pk) {
			fn := fn
			instrs(fn, func(_ *ssa.BasicBlock, _ int, in ssa.Instruction) {
				fa, ok := in.(*ssa.FieldAddr)
				if !ok {
					return
				}
				t, f, base, ok := fieldOf(fa)
				if !ok {
					return
				}
				key := t + "." + f
				_, fresh := stripConv(base).(*ssa.Alloc)
				for _, ref := range *fa.Referrers() {
					switch x := ref.(type) {
					case *ssa.DebugRef:
					case *ssa.Call:
						if cf := staticCallee(&x.Call); cf != nil && cf.Pkg != nil && cf.Pkg.Pkg.Path() == "sync/atomic" && len(x.Call.Args) > 0 && x.Call.Args[0] == ssa.Value(fa) {
							fields[key] = append(fields[key], acc{fn, ref, cf.Name(), fresh})
							atomicField[key] = true
						} else {
							fields[key] = append(fields[key], acc{fn, ref, "addr-escapes", fresh})
						}
					case *ssa.UnOp:
						fields[key] = append(fields[key], acc{fn, ref, "plain-load", fresh})
					case *ssa.Store:
						if x.Addr == ssa.Value(fa) {
							fields[key] = append(fields[key], acc{fn, ref, "plain-store", fresh})
						}
					default:
						fields[key] = append(fields[key], acc{fn, ref, "addr-escapes", fresh})
					}
				}
			})
		}
	}
	var keys []string
	for k := range atomicField {
		keys = append(keys, k)
	}
	sort.Strings(keys)
	r.Site(len(keys))
	for _, k := range keys {
		rmw, stores := false, []acc{}
		for _, a := range fields[k] {
			if strings.HasPrefix(a.op, "Add") || strings.HasPrefix(a.op, "CompareAndSwap") || strings.HasPrefix(a.op, "Swap") {
				rmw = true
			}
			if strings.HasPrefix(a.op, "Store") {
				stores = append(stores, a)
			}
		}
		if dump {
			ops := map[string]int{}
			for _, a := range fields[k] {
				ops[a.op+"@"+fnName(a.fn)]++
			}
			fmt.Println("ATOMIC", k, ops)
		}
		bad := false
		for _, a := range fields[k] {
			if !strings.HasPrefix(a.op, "plain") && a.op != "addr-escapes" {
				continue
			}
			if a.init {
				continue
			}
			ek := k + "|" + fnName(a.fn)
			if why, ok := reviewedPlainAtomicAccess[ek]; ok {
				r.OK(k, "atomic-only@"+fnName(a.fn)+" (reviewed: "+why+")", "a field accessed through sync/atomic is accessed only through sync/atomic")
				continue
			}
			bad = true
			r.Fail(k, "atomic-only@"+fnName(a.fn), "a field accessed through sync/atomic is accessed only through sync/atomic", a.op+" of a field that other code accesses atomically", p.Pos(a.in.Pos()), nil)
		}
		if !bad {
			r.OK(k, "atomic-only", "a field accessed through sync/atomic is accessed only through sync/atomic")
		}
		if rmw {
			for _, a := range stores {
				ek := k + "|" + fnName(a.fn)
				if why, ok := reviewedAtomicStores[ek]; ok {
					r.OK(k, "no-blind-store@"+fnName(a.fn)+" (reviewed: "+why+")", "a field updated by atomic read-modify-write is overwritten only in reviewed places")
					continue
				}
				r.Fail(k, "no-blind-store@"+fnName(a.fn), "a field updated by atomic read-modify-write is overwritten only in reviewed places", "atomic "+a.op+" on a field that other goroutines update by add / compare-and-swap: an update made between the decision and the store is lost", p.Pos(a.in.Pos()), nil)
			}
		}
	}
}
