package main

import (
	"fmt"
	"go/token"
	"go/types"
	"sort"
	"strings"

	"golang.org/x/tools/go/callgraph"
	"golang.org/x/tools/go/ssa"
)

func init() {
	register(&propDef{
		id:          "C18",
		run:         runC18,
		explanation: "Static analysis of ownership and lifecycle: (1) every exported *DB method that can fail tests the closed flag before touching the session, channels or storage (exhaustive over the method set from go/types, through at most one wrapper); Close is gated by the closed flag's compare-and-swap so a second Close does nothing; (2) snapshot handles test their own released flag under their lock before the DB's; (3) one owner: newSession takes the storage lock first, Open/Recover release it on failure in a deferred handler, Close releases it after tearing down the session, and both storage implementations grant the lock only when it is free and free it on Unlock; (4) every iterator movement method tests the released state first; (5) read-only never mutates: openDB takes the mutating branches (journal recovery with commit, file sweep, compaction goroutines) only when not read-only, Open never creates a manifest when read-only, no function reachable from the read-only recovery path calls Create/Remove/Rename/SetMeta/Write/Sync (call-graph reachability), and every mutator of the file storage returns the read-only error first; (6) a read-only DB rejects writes: every select that acquires the write lock listens for the persistent error, which SetReadOnly installs. Necessary conditions only: races of calls with Close and 'mutates nothing once drained' (timing) are NOT decided.",
		notCovered:  "races of API calls with a concurrent Close; that background work has drained (timing); OS-level file locking semantics",
		assumptions: []string{"VTA call graph over-approximates dynamic dispatch on the storage interfaces", "sync/atomic CompareAndSwap semantics"},
	})
}

func runC18(p *Prog, r *Report) {
	if want("C18.15") {
		// (shared with C10/C09) a read-only DB rejects writes only if SetReadOnly never lets go of the
		// write lock it took: the token contracts include "success return ⇒ lock parked with the handler"
		ruleTokenContracts(p, r, "C18.15", 12)
	}
	if want("C18.14") {
		ruleOptGetters(p, r, "C18.14", "read-only and open contracts", "Options.GetReadOnly", "Options.GetErrorIfExist", "Options.GetErrorIfMissing")
	}
	if want("C18.13") {
		// (shared with C09)
		ruleCompTriggerSiblings(p, r, "C18.13")
	}
	if want("C18.12") {
		// after Close nothing panics: no send on the closed buffer pool
		ruleNoSendOnClosedChannel(p, r, "C18.12")
	}
	if want("C18.1") {
		ruleDBMethodsCheckClosed(p, r, "C18.1")
	}
	if want("C18.2") {
		ruleSnapshotState(p, r, "C18.2")
	}
	if want("C18.3") {
		ruleOneOwner(p, r, "C18.3")
	}
	if want("C18.4") {
		ruleIterReleasedFirst(p, r, "C18.4")
	}
	if want("C18.5") {
		ruleReadOnlyNeverMutates(p, r, "C18.5")
	}
	if want("C18.11") {
		ruleReadOnlyReplayKept(p, r, "C18.11")
	}
	if want("C18.10") {
		ruleFileNameTables(p, r, "C18.10")
	}
	if want("C18.9") {
		ruleFileEntryPoints(p, r, "C18.9")
	}
	if want("C18.8") {
		ruleCloseReleasesOwned(p, r, "C18.8")
	}
	if want("C18.7") {
		ruleRecoverySiblings(p, r, "C18.7")
	}
	if want("C18.6") {
		r.Begin("C18.6", "E-EXH", "a read-only DB rejects writes and keeps serving reads: SetReadOnly installs ErrReadOnly as the persistent compaction error; every select that acquires the write lock listens for it (checked with the channel inventory); the persistent-error state is entered for ErrReadOnly and corruption only", 2)
		if fn := resolveFn(p, r, "leveldb", "(*DB).SetReadOnly"); fn != nil {
			okv := false
			instrs(fn, func(_ *ssa.BasicBlock, _ int, in ssa.Instruction) {
				if s, ok := in.(*ssa.Select); ok {
					for _, st := range s.States {
						if st.Dir == 1 && isFieldLoad(st.Chan, tDB, "compErrSetC") {
							if u, ok := stripConv(st.Send).(*ssa.UnOp); ok {
								if g, ok := u.X.(*ssa.Global); ok && g.Name() == "ErrReadOnly" {
									okv = true
								}
							}
						}
					}
				}
			})
			r.Site(1)
			r.Check(okv, fnName(fn), "installs-readonly-error", "SetReadOnly sends ErrReadOnly to the compaction-error handler", "ErrReadOnly is not sent on compErrSetC", p.Pos(fn.Pos()))
		}
		if fn := resolveFn(p, r, "leveldb", "(*DB).compactionError"); fn != nil {
			// the persistent state offers compPerErrC
			n := 0
			instrs(fn, func(_ *ssa.BasicBlock, _ int, in ssa.Instruction) {
				if s, ok := in.(*ssa.Select); ok {
					for _, st := range s.States {
						if st.Dir == 1 && isFieldLoad(st.Chan, tDB, "compPerErrC") {
							n++
						}
					}
				}
			})
			r.Site(1)
			r.Check(n == 1, fnName(fn), "offers-persistent-error", "the persistent-error state offers the error on compPerErrC", fmt.Sprintf("%d offers", n), p.Pos(fn.Pos()))
		}
		if fn := resolveFn(p, r, "leveldb", "(*DB).compactionError"); fn != nil {
			// every state that accepts a new error classifies it the same way: ErrReadOnly and
			// corruption lead to the persistent state (which offers compPerErrC and takes the write
			// lock), from the idle state AND from the transient-error state
			isPersistentSel := func(in ssa.Instruction) bool {
				sel, ok := in.(*ssa.Select)
				if !ok {
					return false
				}
				for _, st := range sel.States {
					if st.Dir == 1 && isFieldLoad(st.Chan, tDB, "compPerErrC") {
						return true
					}
				}
				return false
			}
			anySel := func(in ssa.Instruction) bool { _, ok := in.(*ssa.Select); return ok }
			isRO := cmpAtom("err==ErrReadOnly", token.EQL, func(v ssa.Value) bool { return isErrorType(v.Type()) }, func(v ssa.Value) bool {
				u, ok := stripConv(v).(*ssa.UnOp)
				if !ok {
					return false
				}
				g, ok := u.X.(*ssa.Global)
				return ok && g.Name() == "ErrReadOnly"
			})
			isCorr := boolAtom("IsCorrupted(err)", mCall("leveldb/errors.IsCorrupted"))
			errIsNil := nilAtom("err==nil", func(v ssa.Value) bool { return isErrorType(v.Type()) })
			nRecv := 0
			instrs(fn, func(_ *ssa.BasicBlock, _ int, in ssa.Instruction) {
				sel, ok := in.(*ssa.Select)
				if !ok || isPersistentSel(in) {
					return
				}
				k := -1
				for i, st := range sel.States {
					if st.Dir == 2 && isFieldLoad(st.Chan, tDB, "compErrSetC") {
						k = i
					}
				}
				if k < 0 {
					return
				}
				nRecv++
				thisCase := assumeBool(func(v ssa.Value) (bool, bool) {
					b, ok := v.(*ssa.BinOp)
					if !ok || b.Op != token.EQL {
						return false, false
					}
					ex, ok := b.X.(*ssa.Extract)
					if !ok || ex.Tuple != ssa.Value(sel) || ex.Index != 0 {
						return false, false
					}
					j, isC := constInt(b.Y)
					if !isC {
						return false, false
					}
					return int(j) == k, true
				})
				starts := []point{{sel.Block(), indexOf(sel) + 1}}
				label := "state@" + branchLabel(sel)
				checkGuardExact(p, r, GuardSpec{Rule: "readonly-or-corruption-is-persistent:" + label, Fn: fn, Starts: starts, Extra: thisCase, Target: isPersistentSel, TargetDesc: "the persistent-error state is entered", Atoms: []Atom{isRO, isCorr, errIsNil}, G: func(a []bool) bool { return !a[2] && (a[0] || a[1]) }, GDesc: "the new error is ErrReadOnly or a corruption"}, func(in ssa.Instruction) bool { return anySel(in) && !isPersistentSel(in) }, "another state's select")
				checkGuard(p, r, GuardSpec{Rule: "persistent-only-for-readonly-or-corruption:" + label, Fn: fn, Starts: starts, Extra: thisCase, Avoid: func(in ssa.Instruction) bool { return anySel(in) && !isPersistentSel(in) }, Target: isPersistentSel, TargetDesc: "entering the persistent-error state", Atoms: []Atom{isRO, isCorr, errIsNil}, G: func(a []bool) bool { return !a[2] && (a[0] || a[1]) }, GDesc: "ErrReadOnly ∨ corruption", MinTargets: 1})
			})
			r.Site(1)
			r.Check(nRecv >= 2, fnName(fn), "error-accepting-states", "the idle and the transient-error state both accept new errors from compErrSetC", fmt.Sprintf("%d such states", nRecv), p.Pos(fn.Pos()))
		}
		r.End()
		ruleChanInventory(p, r, "C18.6b")
	}
}

// ruleDBMethodsCheckClosed: C18.1.
func ruleDBMethodsCheckClosed(p *Prog, r *Report, rule string) {
	r.Begin(rule, "E-EXH", "every exported method of *DB with an error or iterator result calls db.ok() (directly or through one wrapper) and returns on failure before touching the session, channels, buffers or storage; Close is gated by setClosed()", 13)
	defer r.End()
	sp := p.ByRel["leveldb"]
	named := sp.Pkg.Scope().Lookup("DB").Type().(*types.Named)
	var ms []*types.Func
	for i := 0; i < named.NumMethods(); i++ {
		m := named.Method(i)
		if !m.Exported() {
			continue
		}
		sig := m.Type().(*types.Signature)
		relevant := false
		for j := 0; j < sig.Results().Len(); j++ {
			t := sig.Results().At(j).Type()
			if isErrorType(t) || isIteratorT(t) {
				relevant = true
			}
		}
		if relevant {
			ms = append(ms, m)
		}
	}
	sort.Slice(ms, func(i, j int) bool { return ms[i].Name() < ms[j].Name() })
	okCall := "(*leveldb.DB).ok"
	okErrNil := nilAtom("db.ok()==nil", mErrOfCall(okCall))
	touches := func(in ssa.Instruction) bool {
		switch x := in.(type) {
		case *ssa.Call:
			f := staticCallee(&x.Call)
			if x.Call.IsInvoke() {
				return true
			}
			if f == nil {
				return !isBuiltinCall(&x.Call)
			}
			if f.Pkg == nil || !strings.HasPrefix(f.Pkg.Pkg.Path(), modPath) {
				return false
			}
			switch fnName(f) {
			case okCall, "leveldb/iterator.NewEmptyIterator", "(*leveldb.Batch).Len", "(*leveldb.DB).setClosed":
				return false
			}
			return true
		case *ssa.Select, *ssa.Send:
			return true
		case *ssa.UnOp:
			if x.Op == token.ARROW {
				return true
			}
			// loads of DB fields other than through ok()
			if x.Op == token.MUL {
				if t, f, _, ok := fieldOf(x.X); ok && t == tDB && (f == "s" || f == "mem" || f == "frozenMem" || f == "journal" || f == "tr") {
					return true
				}
			}
		}
		return false
	}
	for _, m := range ms {
		fn := p.SSA.FuncValue(m)
		if fn == nil {
			continue
		}
		name := fnName(fn)
		r.Fn(name)
		if m.Name() == "Close" {
			gate := boolAtom("setClosed()", mCall("(*leveldb.DB).setClosed"))
			checkGuard(p, r, GuardSpec{Rule: "close-gated", Fn: fn, Target: touches, TargetDesc: "any teardown action", Atoms: []Atom{gate}, G: func(a []bool) bool { return a[0] }, GDesc: "setClosed() won the compare-and-swap (first Close)", MinTargets: 1})
			continue
		}
		// direct check, or a single wrapper that does it
		target := fn
		if countInstr(fn, evCall(okCall)) == 0 {
			// wrapper: the method's only repository call must be to a function that checks first
			var callee *ssa.Function
			n := 0
			instrs(fn, func(_ *ssa.BasicBlock, _ int, in ssa.Instruction) {
				if c, ok := in.(*ssa.Call); ok {
					if f := staticCallee(&c.Call); f != nil && f.Pkg != nil && strings.HasPrefix(f.Pkg.Pkg.Path(), modPath) {
						callee = f
						n++
					}
				}
			})
			if n == 1 && callee != nil && countInstr(callee, evCall(okCall)) > 0 {
				target = callee
				r.Fn(fnName(target))
			} else {
				r.Fail(name, "no-closed-check", "the method tests the closed flag first", "no db.ok() in the method and it is not a thin wrapper of a function that checks: a call after Close would touch a closed session/storage", p.Pos(fn.Pos()), nil)
				continue
			}
		}
		gs := GuardSpec{Rule: "closed-checked-first", Fn: target, Target: touches, TargetDesc: "any use of the session / channels / buffers", Atoms: []Atom{okErrNil}, G: func(a []bool) bool { return a[0] }, GDesc: "db.ok() == nil", MinTargets: 1}
		ok, kind, detail, pos, path, nt := evalGuard(p, gs)
		r.Site(max1(nt))
		if ok {
			via := ""
			if target != fn {
				via = " (via " + fnName(target) + ")"
			}
			r.OK(name, "closed-checked-first", "touches the DB only when db.ok() == nil"+via)
		} else {
			r.Fail(name, "closed-checked-first:"+kind, "the method touches the DB only when db.ok() == nil", detail, pos, path)
		}
		// closed is closed: no success answer (nil error) either without the closed test — a fast path
		// ahead of db.ok() that touches nothing still tells the caller of a closed DB "fine"
		succ := func(in ssa.Instruction) bool {
			ret, isRet := in.(*ssa.Return)
			if !isRet || len(ret.Results) == 0 || !isErrorType(ret.Results[len(ret.Results)-1].Type()) {
				return false
			}
			return returnIsSuccess(ret)
		}
		if countInstr(target, succ) > 0 {
			gs2 := GuardSpec{Rule: "no-success-unless-open", Fn: target, Target: succ, TargetDesc: "returning a nil error", Atoms: []Atom{okErrNil}, G: func(a []bool) bool { return a[0] }, GDesc: "db.ok() == nil", MinTargets: 1}
			ok2, kind2, detail2, pos2, path2, _ := evalGuard(p, gs2)
			if ok2 {
				r.OK(name, "no-success-unless-open", "a nil error is returned only when db.ok() == nil")
			} else {
				r.Fail(name, "no-success-unless-open:"+kind2, "a nil error is returned only when db.ok() == nil", detail2, pos2, path2)
			}
		}
	}
	// ok() reports the closed flag
	if fn := resolveFn(p, r, "leveldb", "(*DB).ok"); fn != nil {
		closed := boolAtom("isClosed()", mCall("(*leveldb.DB).isClosed"))
		retErr := func(in ssa.Instruction) bool {
			ret, ok := in.(*ssa.Return)
			return ok && len(ret.Results) == 1 && isNilConst(ret.Results[0])
		}
		checkGuard(p, r, GuardSpec{Rule: "ok-means-open", Fn: fn, Target: retErr, TargetDesc: "returning nil from ok()", Atoms: []Atom{closed}, G: func(a []bool) bool { return !a[0] }, GDesc: "¬isClosed()", MinTargets: 1})
	}
	if fn := resolveFn(p, r, "leveldb", "(*DB).setClosed"); fn != nil {
		n := countInstr(fn, evCall("sync/atomic.CompareAndSwapUint32"))
		r.Site(1)
		r.Check(n == 1, fnName(fn), "cas", "the closed flag is set with a compare-and-swap (exactly one Close wins)", "setClosed does not use CompareAndSwap", p.Pos(fn.Pos()))
	}
}

func ruleSnapshotState(p *Prog, r *Report, rule string) {
	r.Begin(rule, "E-EXH", "Snapshot.Get/Has/NewIterator test the snapshot's own released flag (under snap.mu) before the DB's closed flag and before reading; Release is idempotent", 6)
	defer r.End()
	released := boolAtom("snap.released", mFieldLoad("leveldb.Snapshot", "released"))
	okNil := nilAtom("db.ok()==nil", mErrOfCall("(*leveldb.DB).ok"))
	for _, name := range []string{"(*Snapshot).Get", "(*Snapshot).Has", "(*Snapshot).NewIterator"} {
		fn := resolveFn(p, r, "leveldb", name)
		if fn == nil {
			continue
		}
		read := evCall("(*leveldb.DB).get", "(*leveldb.DB).has", "(*leveldb.DB).newIterator")
		checkGuard(p, r, GuardSpec{Rule: "read-only-if-live", Fn: fn, Target: read, TargetDesc: "the read", Atoms: []Atom{released, okNil}, G: func(a []bool) bool { return !a[0] && a[1] }, GDesc: "¬snap.released ∧ db.ok()==nil", MinTargets: 1})
		// released is tested before db is dereferenced (snap.db is nil after Release)
		checkGuard(p, r, GuardSpec{Rule: "own-state-first", Fn: fn, Target: evCall("(*leveldb.DB).ok"), TargetDesc: "snap.db.ok() (dereferences snap.db)", Atoms: []Atom{released}, G: func(a []bool) bool { return !a[0] }, GDesc: "¬snap.released", MinTargets: 1})
	}
	// guarded-by: released / db / elem under snap.mu
	ruleGuardedByInline(p, r, gbyTable{
		fields: []gbyField{{"leveldb.Snapshot", "released", "leveldb.Snapshot.mu"}, {"leveldb.Snapshot", "elem", "leveldb.Snapshot.mu"}},
		exceptions: map[string]string{
			"(*leveldb.DB).newSnapshot|*":  "construction before the snapshot is shared",
			"(*leveldb.Snapshot).String|*": "diagnostic String() (no error-capable result; outside the rule's scope by design)",
		},
		requires: map[string][]string{},
	}, []string{"leveldb"})
}

// ruleGuardedByInline runs the guarded-by engine inside an already open rule.
func ruleGuardedByInline(p *Prog, r *Report, tab gbyTable, pkgs []string) {
	sub := newReport("gby", "quick", 0, "")
	ruleGuardedBy(p, sub, "gby", "", pkgs, tab, 0)
	for _, o := range sub.Obls {
		if o.Construct == "rule:gby" {
			continue
		}
		r.Site(1)
		if o.Status == "ok" {
			r.OK(o.Construct, "guarded-by:"+o.Kind, o.What)
		} else {
			r.Fail(o.Construct, "guarded-by:"+o.Kind, o.What, o.Detail, o.Pos, o.Path)
		}
	}
	for f := range sub.Funcs {
		r.Fn(f)
	}
}

func ruleOneOwner(p *Prog, r *Report, rule string) {
	r.Begin(rule, "E-PAIR", "one owner: newSession takes the storage lock before anything else; Open/Recover release the session and the lock in a deferred handler when they fail; DB.Close closes the session and then releases the lock; both storages grant the lock only when free and free it on Unlock", 10)
	defer r.End()
	lockInv := func(in ssa.Instruction) bool {
		cc := callCommon(in)
		return cc != nil && cc.IsInvoke() && cc.Method.Name() == "Lock" && namedOf(cc.Value.Type()) == "leveldb/storage.Storage"
	}
	if fn := resolveFn(p, r, "leveldb", "newSession"); fn != nil {
		other := func(in ssa.Instruction) bool {
			switch x := in.(type) {
			case *ssa.Call:
				if lockInv(in) {
					return false
				}
				f := staticCallee(&x.Call)
				return x.Call.IsInvoke() || (f != nil && f.Pkg != nil && strings.HasPrefix(f.Pkg.Pkg.Path(), modPath))
			case *ssa.Go:
				return true
			}
			return false
		}
		ordPrecede(p, r, fn, "lock-first", nil, lockInv, "stor.Lock()", other, "any other storage/session action")
		ordNotOnError(p, r, fn, "no-session-without-lock", mErrOfCall("iface:leveldb/storage.Storage.Lock"), "stor.Lock()", lockInv, func(in ssa.Instruction) bool { _, ok := in.(*ssa.Go); return ok }, "starting the reference loop")
		// no error exit after the lock was taken (otherwise it would leak)
		afterLock := after(fn, lockInv)
		errRet := func(in ssa.Instruction) bool {
			ret, ok := in.(*ssa.Return)
			if !ok {
				return false
			}
			// a return on the non-nil edge of an error test other than Lock's
			return false && ret != nil
		}
		_ = errRet
		// every error-typed value tested after the lock belongs to Lock itself
		bad := ""
		seen := map[*ssa.BasicBlock]bool{}
		var walk func(b *ssa.BasicBlock, i int)
		walk = func(b *ssa.BasicBlock, i int) {
			if i == 0 {
				if seen[b] {
					return
				}
				seen[b] = true
			}
			if cond, _, ok := ifCond(b); ok {
				if x, _, ok := condNilTest(cond); ok && isErrorType(x.Type()) && !mErrOfCall("iface:leveldb/storage.Storage.Lock")(x) && !mErrOfCall("iface:leveldb/storage.Storage.Lock")(testedValue(x)) {
					bad = p.Pos(b.Instrs[len(b.Instrs)-1].Pos())
				}
			}
			for _, s := range b.Succs {
				walk(s, 0)
			}
		}
		for _, pt := range afterLock {
			walk(pt.b, pt.i)
		}
		r.Site(1)
		r.Check(bad == "", fnName(fn), "no-failure-after-lock", "newSession has no failure exit after taking the lock (it could not release it)", "an error is tested at "+bad+" after the storage lock was taken", bad)
		checkStoreFieldVal(p, r, fn, "lock-kept-in-session", "leveldb.session", "storLock", mOriginAny(mExtract(0, "iface:leveldb/storage.Storage.Lock")), "the Locker returned by stor.Lock()")
	}
	for _, name := range []string{"Open", "Recover"} {
		fn := resolveFn(p, r, "leveldb", name)
		if fn == nil {
			continue
		}
		var epi *ssa.Function
		for _, a := range fn.AnonFuncs {
			if countInstr(a, evCall("(*leveldb.session).release")) > 0 {
				epi = a
			}
		}
		if epi == nil {
			r.Fail(fnName(fn), "release-epilogue:unresolved-anchor", name+" has a deferred handler releasing the session on failure", "not found", p.Pos(fn.Pos()), nil)
			continue
		}
		r.Fn(fnName(epi))
		isDefer := func(in ssa.Instruction) bool { d, ok := in.(*ssa.Defer); return ok && closureCallee(&d.Call) == epi }
		ordPrecede(p, r, fn, "handler-registered-after-session", nil, evCall("leveldb.newSession"), "newSession", isDefer, "defer release-on-failure")
		ordPrecede(p, r, fn, "handler-before-work", nil, isDefer, "defer release-on-failure", evCall("(*leveldb.session).recover", "leveldb.recoverTable", "leveldb.openDB"), "recover / openDB")
		errNil := nilAtom("err==nil", mCellNamed("err"))
		if w := findPath(entryPoint(epi), atomEdges([]Atom{errNil}, []bool{false}), evCall("(*leveldb.session).release"), isReturn); w != nil {
			r.Fail(fnName(epi), "lock-kept-on-failure", "a failed "+name+" releases the storage lock", "with err != nil the handler can return without s.release(): the storage stays locked until the process exits", p.posOfLast(w, isReturn), p.renderPath(w))
		} else {
			r.OK(fnName(epi), "lock-released-on-failure", "a failed "+name+" releases the storage lock")
		}
		checkGuard(p, r, GuardSpec{Rule: "lock-kept-on-success", Fn: epi, Target: evCall("(*leveldb.session).release"), TargetDesc: "s.release()", Atoms: []Atom{errNil}, G: func(a []bool) bool { return !a[0] }, GDesc: "err != nil", MinTargets: 1})
		ordPrecede(p, r, epi, "close-before-release", nil, evCall("(*leveldb.session).close"), "s.close()", evCall("(*leveldb.session).release"), "s.release()")
	}
	if fn := resolveFn(p, r, "leveldb", "(*session).release"); fn != nil {
		n := countInstr(fn, func(in ssa.Instruction) bool {
			cc := callCommon(in)
			return cc != nil && cc.IsInvoke() && cc.Method.Name() == "Unlock"
		})
		r.Site(1)
		r.Check(n == 1, fnName(fn), "unlocks-storage", "session.release unlocks the storage lock", fmt.Sprintf("%d Unlock invocations", n), p.Pos(fn.Pos()))
	}
	// storages: the lock is exclusive
	for _, spec := range []struct{ pkg, typ, lockT string }{{"leveldb/storage", "fileStorage", "fileStorageLock"}, {"leveldb/storage", "memStorage", "memStorageLock"}} {
		if fn := resolveFn(p, r, spec.pkg, "(*"+spec.typ+").Lock"); fn != nil {
			T := spec.pkg + "." + spec.typ
			free := nilAtom("slock==nil", mFieldLoad(T, "slock"))
			atoms := []Atom{free}
			G := func(a []bool) bool { return a[0] }
			gd := "no lock outstanding (slock == nil)"
			if spec.typ == "fileStorage" {
				ro := boolAtom("readOnly", mFieldLoad(T, "readOnly"))
				atoms = append(atoms, ro)
				G = func(a []bool) bool { return a[0] || a[1] }
				gd += " ∨ read-only storage (shared)"
			}
			granted := func(in ssa.Instruction) bool {
				ret, ok := in.(*ssa.Return)
				return ok && len(ret.Results) == 2 && isNilConst(retValue(ret, ret.Results[1]))
			}
			checkGuard(p, r, GuardSpec{Rule: "exclusive-grant", Fn: fn, Target: granted, TargetDesc: "granting the lock", Atoms: atoms, G: G, GDesc: gd, MinTargets: 1})
			// a granted exclusive lock is recorded
			n := countInstr(fn, evStoreField(T, "slock"))
			r.Check(n == 1, fnName(fn), "grant-recorded", "the granted lock is recorded in slock", fmt.Sprintf("%d stores", n), p.Pos(fn.Pos()))
		}
		if fn := resolveFn(p, r, spec.pkg, "(*"+spec.lockT+").Unlock"); fn != nil {
			T := spec.pkg + "." + spec.typ
			okv := false
			instrs(fn, func(_ *ssa.BasicBlock, _ int, in ssa.Instruction) {
				if st, ok := in.(*ssa.Store); ok && isFieldAddr(st.Addr, T, "slock") && isNilConst(st.Val) {
					okv = true
				}
			})
			r.Site(1)
			r.Check(okv, fnName(fn), "unlock-frees", "Unlock clears slock (the storage can be owned again)", "slock not cleared", p.Pos(fn.Pos()))
			// and it does so exactly when this lock is the recorded owner
			mine := cmpAtom("slock==lock", token.EQL, mFieldLoad(T, "slock"), mParam("lock"))
			hasFs := assumeBool(func(v ssa.Value) (bool, bool) {
				if b, ok := v.(*ssa.BinOp); ok && (b.Op == token.NEQ || b.Op == token.EQL) && isNilConst(b.Y) && isFieldLoad(b.X, spec.pkg+"."+spec.lockT, "fs") {
					return b.Op == token.NEQ, true
				}
				return false, false
			})
			clear := evStoreField(T, "slock")
			if w := findPathV(entryPoint(fn), andEdges(hasFs, atomEdges([]Atom{mine}, []bool{true})), clear, isReturn, atomVals([]Atom{mine}, []bool{true})); w != nil {
				r.Fail(fnName(fn), "owner-unlock-does-not-free", "the owner's Unlock frees the storage", "with slock == lock a path returns without clearing slock: the storage can never be opened again in this process", p.posOfLast(w, isReturn), p.renderPath(w))
			} else {
				r.OK(fnName(fn), "owner-unlock-frees", "the owner's Unlock frees the storage")
			}
			checkGuard(p, r, GuardSpec{Rule: "only-owner-frees", Fn: fn, Target: clear, TargetDesc: "clearing slock", Atoms: []Atom{mine}, G: func(a []bool) bool { return a[0] }, GDesc: "slock == lock (a stale lock object cannot free a new owner's lock)", MinTargets: 1})
		}
	}
}

// reachable returns the functions reachable from roots in the call graph.
func reachableFrom(cg *callgraph.Graph, roots ...*ssa.Function) map[*ssa.Function]bool {
	out := map[*ssa.Function]bool{}
	var stack []*callgraph.Node
	for _, f := range roots {
		if n := cg.Nodes[f]; n != nil && !out[f] {
			out[f] = true
			stack = append(stack, n)
		}
	}
	for len(stack) > 0 {
		x := stack[len(stack)-1]
		stack = stack[:len(stack)-1]
		for _, e := range x.Out {
			c := e.Callee.Func
			if !out[c] {
				out[c] = true
				stack = append(stack, e.Callee)
			}
		}
	}
	return out
}

func ruleReadOnlyNeverMutates(p *Prog, r *Report, rule string) {
	r.Begin(rule, "E-REACH", "read-only never mutates: openDB recovers journals with the non-committing routine, skips the file sweep and starts no compaction goroutines when read-only; Open never creates a manifest when read-only; no function reachable from the read-only recovery path invokes Create/Remove/Rename/SetMeta or Writer.Write/Sync; the file storage's mutators return the read-only error first", 10)
	defer r.End()
	if fn := resolveFn(p, r, "leveldb", "openDB"); fn != nil {
		ro := boolAtom("readOnly", mCall("(*leveldb/opt.Options).GetReadOnly"))
		mut := []struct {
			k string
			p InstrPred
		}{
			{"recoverJournal", evCall("(*leveldb.DB).recoverJournal")},
			{"checkAndCleanFiles", evCall("(*leveldb.DB).checkAndCleanFiles")},
			{"go tCompaction", func(in ssa.Instruction) bool {
				g, ok := in.(*ssa.Go)
				return ok && isCallTo(g, "(*leveldb.DB).tCompaction")
			}},
			{"go mCompaction", func(in ssa.Instruction) bool {
				g, ok := in.(*ssa.Go)
				return ok && isCallTo(g, "(*leveldb.DB).mCompaction")
			}},
		}
		for _, m := range mut {
			checkGuard(p, r, GuardSpec{Rule: "only-when-writable:" + m.k, Fn: fn, Target: m.p, TargetDesc: m.k, Atoms: []Atom{ro}, G: func(a []bool) bool { return !a[0] }, GDesc: "¬readOnly", MinTargets: 1})
		}
		checkGuard(p, r, GuardSpec{Rule: "ro-recovery-when-readonly", Fn: fn, Target: evCall("(*leveldb.DB).recoverJournalRO"), TargetDesc: "recoverJournalRO", Atoms: []Atom{ro}, G: func(a []bool) bool { return a[0] }, GDesc: "readOnly", MinTargets: 1})
		// read-only: the DB is switched to the read-only error state before it is returned
		roT := atomEdges([]Atom{ro}, []bool{true})
		if w := findPathV(entryPoint(fn), andEdges(roT, noErrEdges), evCall("(*leveldb.DB).SetReadOnly"), isReturn, atomVals([]Atom{ro}, []bool{true})); w != nil {
			r.Fail(fnName(fn), "readonly-state-not-set", "a DB opened read-only is put into the read-only error state", "with readOnly a success path returns without SetReadOnly(): writes would be accepted", p.posOfLast(w, isReturn), p.renderPath(w))
		} else {
			r.OK(fnName(fn), "readonly-state-set", "a DB opened read-only is put into the read-only error state")
		}
	}
	if fn := resolveFn(p, r, "leveldb", "Open"); fn != nil {
		ro := boolAtom("GetReadOnly()", mCall("(*leveldb.cachedOptions).GetReadOnly", "(*leveldb/opt.Options).GetReadOnly"))
		checkGuard(p, r, GuardSpec{Rule: "no-create-when-readonly", Fn: fn, Target: evCall("(*leveldb.session).create"), TargetDesc: "s.create() (writes a new manifest)", Atoms: []Atom{ro}, G: func(a []bool) bool { return !a[0] }, GDesc: "¬readOnly", MinTargets: 1})
	}
	// reachability
	roots := []*ssa.Function{p.Fn("leveldb", "(*DB).recoverJournalRO"), p.Fn("leveldb", "(*session).recover")}
	for _, f := range roots {
		if f == nil {
			r.Fail("leveldb:read-only-roots", "unresolved-anchor", "read-only recovery entry points exist", "recoverJournalRO / session.recover not found", "", nil)
			return
		}
	}
	reach := reachableFrom(p.CG(), roots...)
	mutators := map[string]bool{"Create": true, "Remove": true, "Rename": true, "SetMeta": true}
	nfn, bad := 0, 0
	var names []string
	for f := range reach {
		if f.Pkg == nil || !strings.HasPrefix(f.Pkg.Pkg.Path(), modPath) || strings.Contains(f.Pkg.Pkg.Path(), "/storage") || strings.Contains(f.Pkg.Pkg.Path(), "/testutil") {
			continue
		}
		names = append(names, fnName(f))
		nfn++
		ff := f
		instrs(f, func(_ *ssa.BasicBlock, _ int, in ssa.Instruction) {
			cc := callCommon(in)
			if cc == nil || !cc.IsInvoke() {
				return
			}
			n := namedOf(cc.Value.Type())
			m := cc.Method.Name()
			if (n == "leveldb/storage.Storage" && mutators[m]) || (n == "leveldb/storage.Writer" && (m == "Write" || m == "Sync")) || (n == "leveldb/storage.Syncer" && m == "Sync") {
				bad++
				r.Fail(fnName(ff), "mutation-reachable-from-readonly-open:"+n+"."+m, "no storage mutation is reachable from the read-only open path", fmt.Sprintf("%s.%s at %s is reachable from recoverJournalRO/session.recover", n, m, p.Pos(in.Pos())), p.Pos(in.Pos()), nil)
			}
		})
		// direct calls of the iStorage wrappers
		for _, c := range findCalls(f, "(*leveldb.iStorage).Create") {
			bad++
			r.Fail(fnName(ff), "mutation-reachable-from-readonly-open:Create", "no storage mutation is reachable from the read-only open path", "stor.Create at "+p.Pos(c.Pos()), p.Pos(c.Pos()), nil)
		}
	}
	r.Site(nfn)
	sort.Strings(names)
	r.Extra["readonly_reachable_functions"] = len(names)
	if bad == 0 {
		r.OK("reach(recoverJournalRO, session.recover)", "no-mutation-reachable", fmt.Sprintf("%d repository functions reachable from the read-only open path; none invokes Create/Remove/Rename/SetMeta/Write/Sync", nfn))
	}
	// file storage mutators refuse when read-only
	T := "leveldb/storage.fileStorage"
	ro := boolAtom("fs.readOnly", mFieldLoad(T, "readOnly"))
	for _, m := range []string{"SetMeta", "Create", "Remove", "Rename"} {
		fn := resolveFn(p, r, "leveldb/storage", "(*fileStorage)."+m)
		if fn == nil {
			continue
		}
		osMut := func(in ssa.Instruction) bool {
			c, ok := in.(*ssa.Call)
			if !ok {
				return false
			}
			f := staticCallee(&c.Call)
			if f == nil || f.Pkg == nil {
				return false
			}
			if f.Pkg.Pkg.Path() == "os" {
				switch f.Name() {
				case "OpenFile", "Remove", "Rename", "Create", "Mkdir", "MkdirAll":
					return true
				}
			}
			switch fnName(f) {
			case "(*leveldb/storage.fileStorage).setMeta", "leveldb/storage.rename", "leveldb/storage.syncDir", "leveldb/storage.writeFileSynced":
				return true
			}
			return false
		}
		if countInstr(fn, osMut) == 0 {
			r.Fail(fnName(fn), "os-mutation:unresolved-anchor", "the mutator performs a filesystem mutation", "no os-level mutation recognised in "+m, p.Pos(fn.Pos()), nil)
			continue
		}
		checkGuard(p, r, GuardSpec{Rule: "refuses-when-readonly", Fn: fn, Target: osMut, TargetDesc: "the filesystem mutation", Atoms: []Atom{ro}, G: func(a []bool) bool { return !a[0] }, GDesc: "¬fs.readOnly", MinTargets: 1})
	}
	// exhaustively: EVERY method of fileStorage that mutates the filesystem (directly, or through the
	// internal helpers setMeta / rename / writeFileSynced / syncDir / doLog) does so only when the
	// storage is not read-only — including methods that "only read", like GetMeta, which repairs
	// CURRENT as a side effect
	mutCall := func(in ssa.Instruction) bool {
		c, ok := in.(*ssa.Call)
		if !ok {
			return false
		}
		f := staticCallee(&c.Call)
		if f == nil || f.Pkg == nil {
			return false
		}
		if f.Pkg.Pkg.Path() == "os" {
			switch f.Name() {
			case "Remove", "Rename", "Create", "Mkdir", "MkdirAll", "RemoveAll":
				return true
			case "OpenFile":
				// only when opened for writing: flag argument is not the constant O_RDONLY
				if k, isC := constInt(c.Call.Args[1]); isC && k == 0 {
					return false
				}
				return true
			}
		}
		switch fnName(f) {
		case "(*leveldb/storage.fileStorage).setMeta", "leveldb/storage.rename", "leveldb/storage.writeFileSynced":
			return true
		}
		return false
	}
	internalHelpers := map[string]string{
		"(*leveldb/storage.fileStorage).setMeta": "internal: every caller is checked (it has no read-only test of its own)",
		"(*leveldb/storage.fileStorage).doLog":   "internal: reached only through log()/Log(), which are checked",
		"(*leveldb/storage.fileStorage).Close":   "teardown: closes the LOG file and releases the lock",
	}
	nm := 0
	for _, fn := range p.SrcFuncs("leveldb/storage") {
		recv := fn.Signature.Recv()
		if recv == nil || namedOf(recv.Type()) != T {
			continue
		}
		if countInstr(fn, mutCall) == 0 {
			continue
		}
		if _, ok := internalHelpers[fnName(fn)]; ok {
			continue
		}
		nm++
		r.Fn(fnName(fn))
		checkGuard(p, r, GuardSpec{Rule: "mutation-only-when-writable", Fn: fn, Target: mutCall, TargetDesc: "a filesystem mutation (create/remove/rename/write, or setMeta)", Atoms: []Atom{ro}, G: func(a []bool) bool { return !a[0] }, GDesc: "¬fs.readOnly", MinTargets: 1})
	}
	r.Site(1)
	r.Check(nm >= 5, "leveldb/storage.fileStorage", "mutating-methods", "the mutating methods of the file storage were found (SetMeta, GetMeta's repair, Create, Remove, Rename, …)", fmt.Sprintf("%d methods with filesystem mutations", nm), "")
	// the log file is not written in read-only mode
	for _, name := range []string{"(*fileStorage).Log", "(*fileStorage).log"} {
		if fn := resolveFn(p, r, "leveldb/storage", name); fn != nil {
			checkGuard(p, r, GuardSpec{Rule: "no-log-when-readonly", Fn: fn, Target: evCall("(*leveldb/storage.fileStorage).doLog"), TargetDesc: "writing the LOG file", Atoms: []Atom{ro}, G: func(a []bool) bool { return !a[0] }, GDesc: "¬fs.readOnly", MinTargets: 1})
		}
	}
}
