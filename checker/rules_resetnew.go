package main

import (
	"fmt"
	"go/types"
	"sort"

	"golang.org/x/tools/go/ssa"
)

// ruleResetEqualsNew: journal.Reader.Reset / journal.Writer.Reset re-target a used object at another
// file (the DB reuses one reader for all journals of a recovery and one writer across memdb
// rotations). After Reset the object must be indistinguishable from a fresh NewReader/NewWriter on
// that file: every field is overwritten with what the constructor would put there (same
// parameter, same constant, or the zero value for fields the constructor leaves out). A field that
// survives — the buffered block, the read window, the "last chunk seen" flag, the latched error,
// the pending-chunk state — makes the next journal yield or contain bytes of the previous one.
func ruleResetEqualsNew(p *Prog, r *Report, rule string) {
	r.Begin(rule, "E-SIB", "journal.Reader.Reset and journal.Writer.Reset leave every field as the constructor would (same parameter / constant / zero value); only the staleness counter seq (incremented) and the scratch buffer buf are exempt", 14)
	defer r.End()
	for _, sp := range []struct{ typ, newFn, resetFn string }{
		{"Reader", "NewReader", "(*Reader).Reset"},
		{"Writer", "NewWriter", "(*Writer).Reset"},
	} {
		nf := resolveFn(p, r, "leveldb/journal", sp.newFn)
		rf := resolveFn(p, r, "leveldb/journal", sp.resetFn)
		if nf == nil || rf == nil {
			continue
		}
		T := "leveldb/journal." + sp.typ
		exempt := map[string]string{"seq": "staleness counter: incremented so that readers/writers handed out earlier go stale", "buf": "scratch block buffer: contents are dead once the window indices are reset"}
		var class func(fn *ssa.Function, v ssa.Value, recv bool) string
		depth := 0
		class = func(fn *ssa.Function, v ssa.Value, recv bool) string {
			v = stripConv(v)
			depth++
			defer func() { depth-- }()
			if depth > 6 {
				return "deep"
			}
			switch x := v.(type) {
			case *ssa.Phi:
				// a value normalised on some paths (e.g. nil replaced by a default): the SET of
				// alternatives must agree between constructor and Reset
				var alts []string
				seen := map[string]bool{}
				for _, e := range x.Edges {
					c := class(fn, e, recv)
					if !seen[c] {
						seen[c] = true
						alts = append(alts, c)
					}
				}
				sort.Strings(alts)
				return "oneof" + fmt.Sprint(alts)
			case *ssa.MakeInterface:
				return "iface(" + types.TypeString(x.X.Type(), nil) + ":" + class(fn, x.X, recv) + ")"
			case *ssa.Const:
				if x.IsNil() || x.Value == nil {
					return "zero"
				}
				s := x.Value.ExactString()
				if s == "0" || s == "false" || s == `""` {
					return "zero"
				}
				return "const:" + s
			case *ssa.Parameter:
				for i, pp := range fn.Params {
					if pp == x {
						if recv {
							i--
						}
						return fmt.Sprintf("param#%d", i)
					}
				}
			case *ssa.Extract:
				if ta, ok := x.Tuple.(*ssa.TypeAssert); ok {
					if pp, ok := stripConv(ta.X).(*ssa.Parameter); ok {
						for i, q := range fn.Params {
							if q == pp {
								if recv {
									i--
								}
								return fmt.Sprintf("assert(param#%d,%s)#%d", i, types.TypeString(ta.AssertedType, nil), x.Index)
							}
						}
					}
				}
			case *ssa.TypeAssert:
				if pp, ok := stripConv(x.X).(*ssa.Parameter); ok {
					for i, q := range fn.Params {
						if q == pp {
							if recv {
								i--
							}
							return fmt.Sprintf("assert(param#%d,%s)#0", i, types.TypeString(x.AssertedType, nil))
						}
					}
				}
			}
			return "other:" + v.String()
		}
		fieldStores := func(fn *ssa.Function, recv bool) map[string][]string {
			m := map[string][]string{}
			instrs(fn, func(_ *ssa.BasicBlock, _ int, in ssa.Instruction) {
				st, ok := in.(*ssa.Store)
				if !ok {
					return
				}
				t, f, _, ok := fieldOf(st.Addr)
				if !ok || t != T {
					return
				}
				m[f] = append(m[f], class(fn, st.Val, recv))
			})
			return m
		}
		nst := fieldStores(nf, false)
		rst := fieldStores(rf, true)
		// all fields of T
		var fields []string
		if sp := p.ByRel["leveldb/journal"]; sp != nil {
			if o := sp.Pkg.Scope().Lookup(T[len("leveldb/journal."):]); o != nil {
				if stt, ok := o.Type().Underlying().(*types.Struct); ok {
					for i := 0; i < stt.NumFields(); i++ {
						fields = append(fields, stt.Field(i).Name())
					}
				}
			}
		}
		sort.Strings(fields)
		r.Site(len(fields))
		r.Fn(fnName(nf))
		r.Fn(fnName(rf))
		if len(fields) == 0 {
			r.Fail(T, "fields:unresolved-anchor", "the struct's fields were found", "type not found", "", nil)
			continue
		}
		for _, f := range fields {
			if why, ok := exempt[f]; ok {
				r.OK(T+"."+f, "reset-field:exempt", "exempt: "+why)
				continue
			}
			want := "zero"
			if cs := nst[f]; len(cs) == 1 {
				want = cs[0]
			} else if len(cs) > 1 {
				want = "multiple:" + fmt.Sprint(cs)
			}
			got := rst[f]
			switch {
			case len(got) == 0:
				r.Fail(T+"."+f, "reset-field", "Reset overwrites the field with the constructor's value", fmt.Sprintf("%s does not assign %s (the constructor gives it %s): the value from the previous file survives", fnName(rf), f, want), p.Pos(rf.Pos()), nil)
			case len(got) > 1:
				// several stores: every one must be the constructor's value
				ok := true
				for _, g := range got {
					if g != want {
						ok = false
					}
				}
				r.Check(ok, T+"."+f, "reset-field", "Reset overwrites the field with the constructor's value", fmt.Sprintf("%s assigns %s = %v, the constructor %s", fnName(rf), f, got, want), p.Pos(rf.Pos()))
			default:
				r.Check(got[0] == want, T+"."+f, "reset-field", "Reset overwrites the field with the constructor's value", fmt.Sprintf("%s assigns %s = %s, the constructor %s", fnName(rf), f, got[0], want), p.Pos(rf.Pos()))
			}
		}
	}
	// Writer.Reset is also one of the calls that FINISH the pending chunk (like Flush, Next and
	// Close): what was buffered belongs to the old stream, so writePending() runs before the
	// underlying writer (and its flusher) are replaced
	if rf := resolveFn(p, r, "leveldb/journal", "(*Writer).Reset"); rf != nil {
		pend := evCall("(*leveldb/journal.Writer).writePending")
		for _, f := range []string{"w", "f"} {
			swap := evStoreField("leveldb/journal.Writer", f)
			ordPrecede(p, r, rf, "pending-chunk-to-old-stream:"+f, func(b *ssa.BasicBlock, succ int) bool {
				// only the branch on which there is no latched error writes the pending chunk
				cond, neg, ok := ifCond(b)
				if !ok {
					return true
				}
				x, trueNonNil, okN := condNilTest(cond)
				if !okN || !isFieldLoad(x, "leveldb/journal.Writer", "err") {
					return true
				}
				if neg {
					trueNonNil = !trueNonNil
				}
				nilEdge := 1
				if !trueNonNil {
					nilEdge = 0
				}
				return succ == nilEdge
			}, pend, "writePending() (into the old writer)", swap, "w."+f+" = the new writer")
		}
	}

}
