package main

import (
	"fmt"
	"go/token"

	"golang.org/x/tools/go/ssa"
)

func init() {
	register(&propDef{
		id:          "C15",
		run:         runC15,
		explanation: "Static analysis of the internal-key order and the index-key shortening wrappers: (1) iComparer.Compare's sign table, computed by abstract interpretation of its loop-free CFG over the finite order domain (user-key comparison ∈ {-,0,+} × trailer comparison ∈ {<,=,>}): user keys ascending through the configured comparer, equal user keys by DEscending (sequence<<8|kind); operands taken from the right arguments in the right order; (2) the shortening guards: iComparer.Separator/Successor return a shortened key only when the user comparer produced one, it is shorter than the original and strictly greater than the left key, and they append the maximal trailer; otherwise nil (the caller keeps the full key); (3) encode/decode agreement of the trailer ((seq<<8)|kind little-endian in the last 8 bytes), range checks on construction and parsing, and the constants (the seek kind is the largest kind, keyMaxSeq = 2^56-1, keyMaxNum = keyMaxSeq<<8|seek); (4) comparer discipline; (5) the bytewise comparer's shortening guards: for its construction (common prefix + first differing byte of a incremented) a shortened separator is returned only under a[i]+1 < b[i] (or a[i] < b[i] with b longer), a successor only at a byte != 0xff. Necessary conditions: totality/transitivity for an arbitrary user comparer, the laws of OTHER shortening constructions and 'the index routes every lookup' quantify over all byte strings and are NOT decided.",
		notCovered:  "order laws (totality, transitivity) for arbitrary user comparers; Separator/Successor laws of user comparers and of any construction other than prefix+increment; that the index built from shortened keys routes every lookup",
		assumptions: []string{"the user comparer satisfies its documented contract"},
	})
}

const tIK = "leveldb.internalKey"

func runC15(p *Prog, r *Report) {
	if want("C15.8") {
		ruleOptGetters(p, r, "C15.8", "the comparer in force", "Options.GetComparer")
	}
	if want("C15.7") {
		// (shared with C19) internal key validity
		ruleValidKeyAgreesWithParse(p, r, "C15.7")
	}
	if want("C15.1") {
		ruleICompareSignTable(p, r, "C15.1")
	}
	if want("C15.2") {
		ruleShorteningGuards(p, r, "C15.2")
	}
	if want("C15.3") {
		ruleKeyCodec(p, r, "C15.3")
	}
	if want("C15.6") {
		// the range predicates and table searches rest on the internal-key order (a (ukey, maxSeq)
		// probe sorts before every entry of ukey)
		ruleRangePredicates(p, r, "C15.6")
	}
	if want("C15.5") {
		ruleBytewiseShortening(p, r, "C15.5")
	}
	if want("C15.4") {
		ruleComparerDiscipline(p, r, "C15.4", cmpPkgs, nil)
	}
}

func ruleICompareSignTable(p *Prog, r *Report, rule string) {
	r.Begin(rule, "E-GUARD", "iComparer.Compare sign table: returns the user comparison x when x≠0; when x=0 returns -1 if num(a)>num(b), +1 if num(a)<num(b), else 0 — evaluated for all 9 (x, num) cases over the function's CFG", 8)
	defer r.End()
	fn := resolveFn(p, r, "leveldb", "(*iComparer).Compare")
	if fn == nil {
		return
	}
	x := mCall(fUCompare)
	num := mCall("(leveldb.internalKey).num")
	// which call is num(a) / num(b): by argument origin
	var pa, pb *ssa.Parameter
	for _, q := range fn.Params {
		if q.Name() == "a" {
			pa = q
		}
		if q.Name() == "b" {
			pb = q
		}
	}
	if pa == nil || pb == nil {
		r.Fail(fnName(fn), "unresolved-anchor", "Compare(a, b) parameters", "parameters a, b not found", p.Pos(fn.Pos()), nil)
		return
	}
	numOf := func(pp *ssa.Parameter) VMatch {
		return func(v ssa.Value) bool {
			c, ok := callValue(v, "(leveldb.internalKey).num")
			return ok && stripConv(c.Call.Args[0]) == ssa.Value(pp)
		}
	}
	_ = num
	xEq0 := cmpAtom("x==0", token.EQL, x, mConstInt(0))
	mGtN := cmpAtom("num(a)>num(b)", token.GTR, numOf(pa), numOf(pb))
	mLtN := cmpAtom("num(a)<num(b)", token.LSS, numOf(pa), numOf(pb))
	atoms := []Atom{xEq0, mGtN, mLtN}
	type kind int
	const (
		retX kind = iota
		retNeg
		retPos
		retOther
	)
	classify := func(ret *ssa.Return) kind {
		v := ret.Results[0]
		if c, ok := constInt(v); ok {
			if c == -1 {
				return retNeg
			}
			if c == 1 {
				return retPos
			}
			return retOther
		}
		if mOriginAll(x)(v) {
			return retX
		}
		return retOther
	}
	cases := []struct {
		name   string
		assign []bool
		want   kind
		wantS  string
	}{
		{"x≠0 (any trailer)", []bool{false, true, false}, retX, "x"},
		{"x≠0, num(a)<num(b)", []bool{false, false, true}, retX, "x"},
		{"x≠0, num(a)=num(b)", []bool{false, false, false}, retX, "x"},
		{"x=0, num(a)>num(b)", []bool{true, true, false}, retNeg, "-1 (newer first)"},
		{"x=0, num(a)<num(b)", []bool{true, false, true}, retPos, "+1"},
		{"x=0, num(a)=num(b)", []bool{true, false, false}, retX, "x (=0)"},
	}
	for _, cs := range cases {
		r.Site(1)
		got := map[kind]bool{}
		instrs(fn, func(_ *ssa.BasicBlock, _ int, in ssa.Instruction) {
			ret, ok := in.(*ssa.Return)
			if !ok {
				return
			}
			if findPathV(entryPoint(fn), atomEdges(atoms, cs.assign), nil, func(i2 ssa.Instruction) bool { return i2 == in }, atomVals(atoms, cs.assign)) != nil {
				got[classify(ret)] = true
			}
		})
		ok := len(got) == 1 && got[cs.want]
		r.Check(ok, fnName(fn), "sign:"+cs.name, "for "+cs.name+" Compare returns "+cs.wantS, fmt.Sprintf("reachable return kinds: %v (0=x,1=-1,2=+1,3=other)", got), p.Pos(fn.Pos()))
	}
	// operands of the user comparison: ukey(a), ukey(b) in that order
	okArgs := false
	for _, c := range findCalls(fn, fUCompare) {
		cc := callCommon(c)
		ua, okA := callValue(cc.Args[1], "(leveldb.internalKey).ukey")
		ub, okB := callValue(cc.Args[2], "(leveldb.internalKey).ukey")
		if okA && okB && stripConv(ua.Call.Args[0]) == ssa.Value(pa) && stripConv(ub.Call.Args[0]) == ssa.Value(pb) {
			okArgs = true
		}
	}
	r.Check(okArgs, fnName(fn), "operands", "the user comparison is uCompare(ukey(a), ukey(b))", "operands are not (ukey(a), ukey(b)) in order", p.Pos(fn.Pos()))
	r.Site(1)
	if uc := resolveFn(p, r, "leveldb", "(*iComparer).uCompare"); uc != nil {
		// delegates to the configured comparer with the arguments in order
		okv := false
		instrs(uc, func(_ *ssa.BasicBlock, _ int, in ssa.Instruction) {
			if c, ok := in.(*ssa.Call); ok && c.Call.IsInvoke() && c.Call.Method.Name() == "Compare" && len(c.Call.Args) == 2 {
				if mParam("a")(c.Call.Args[0]) && mParam("b")(c.Call.Args[1]) && isFieldLoad(c.Call.Value, "leveldb.iComparer", "ucmp") {
					okv = true
				}
			}
		})
		r.Site(1)
		r.Check(okv, fnName(uc), "delegates", "uCompare(a, b) = ucmp.Compare(a, b)", "uCompare does not delegate (a, b) in order to the configured comparer", p.Pos(uc.Pos()))
	}
}

func ruleShorteningGuards(p *Prog, r *Report, rule string) {
	r.Begin(rule, "E-GUARD", "index-key shortening: iComparer.Separator / Successor return non-nil only when the user comparer returned a key that is STRICTLY greater than the left key under the user comparer (the length test is an economy and is not required); the result is that key with the maximal (seq,kind) trailer appended", 4)
	defer r.End()
	for _, spec := range []struct{ name, ucall, left string }{{"(*iComparer).Separator", "(*leveldb.iComparer).uSeparator", "a"}, {"(*iComparer).Successor", "(*leveldb.iComparer).uSuccessor", "b"}} {
		fn := resolveFn(p, r, "leveldb", spec.name)
		if fn == nil {
			continue
		}
		dst := mCall(spec.ucall)
		lenOf := func(m VMatch) VMatch {
			return func(v ssa.Value) bool {
				c, ok := v.(*ssa.Call)
				return ok && isCallTo(c, "builtin:len") && m(c.Call.Args[0])
			}
		}
		leftUkey := func(v ssa.Value) bool {
			c, ok := callValue(v, "(leveldb.internalKey).ukey")
			return ok && mParam(spec.left)(stripConv(c.Call.Args[0]))
		}
		nonNil := nilAtom("dst==nil", dst)
		shorter := cmpAtom("len(dst)<len(ukey)", token.LSS, lenOf(dst), lenOf(leftUkey))
		greater := cmpAtom("uCompare(ukey,dst)<0", token.LSS, func(v ssa.Value) bool {
			c, ok := callValue(v, fUCompare)
			return ok && leftUkey(c.Call.Args[1]) && dst(c.Call.Args[2])
		}, mConstInt(0))
		retNonNil := func(in ssa.Instruction) bool {
			ret, ok := in.(*ssa.Return)
			return ok && len(ret.Results) == 1 && !isNilConst(ret.Results[0])
		}
		checkGuard(p, r, GuardSpec{Rule: "shorten-only-if-valid", Fn: fn, Target: retNonNil, TargetDesc: "returning a shortened key", Atoms: []Atom{nonNil, greater}, G: func(a []bool) bool { return !a[0] && a[1] }, GDesc: "dst≠nil ∧ uCompare(ukey, dst)<0 (strictly: (dst,maxTrailer) must not sort before the entries of ukey)", MinTargets: 1})
		// the "physically shorter" test is an economy, not a law: it is not required (a change that
		// drops it while keeping strictness keeps a <= separator < b)
		_ = shorter
		// the returned value is append(dst, keyMaxNumBytes...)
		okv := false
		instrs(fn, func(_ *ssa.BasicBlock, _ int, in ssa.Instruction) {
			if ret, ok := in.(*ssa.Return); ok && len(ret.Results) == 1 {
				if c, ok := ret.Results[0].(*ssa.Call); ok && isCallTo(c, "builtin:append") && dst(c.Call.Args[0]) {
					if u, ok := c.Call.Args[1].(*ssa.UnOp); ok {
						if g, ok := u.X.(*ssa.Global); ok && g.Name() == "keyMaxNumBytes" {
							okv = true
						}
					}
				}
			}
		})
		r.Site(1)
		r.Check(okv, fnName(fn), "max-trailer", "the shortened user key gets the maximal trailer (sorts before every real entry of that user key)", "the result is not append(dst, keyMaxNumBytes...)", p.Pos(fn.Pos()))
	}
	// flushPendingBH falls back to the full previous key exactly when the comparer returned nil
	if fn := resolveFn(p, r, "leveldb/table", "(*Writer).flushPendingBH"); fn != nil {
		sep := func(v ssa.Value) bool {
			return mOriginAny(func(x ssa.Value) bool {
				c, ok := x.(*ssa.Call)
				return ok && c.Call.IsInvoke() && (c.Call.Method.Name() == "Separator" || c.Call.Method.Name() == "Successor")
			})(v)
		}
		isNil := nilAtom("separator==nil", sep)
		// the key handed to the index block is the separator when non-nil, else prevKey
		var idx *ssa.Call
		for _, c := range findCalls(fn, "(*leveldb/table.blockWriter).append") {
			idx = c.(*ssa.Call)
		}
		if idx == nil {
			r.Fail(fnName(fn), "index-append:unresolved-anchor", "flushPendingBH appends an index entry", "not found", p.Pos(fn.Pos()), nil)
		} else {
			r.Site(1)
			arg := idx.Call.Args[1]
			ph, isPhi := arg.(*ssa.Phi)
			ok := false
			if isPhi && len(ph.Edges) == 2 {
				hasPrev, hasSep := false, false
				for _, e := range ph.Edges {
					if isFieldLoad(e, "leveldb/table.blockWriter", "prevKey") {
						hasPrev = true
					}
					if sep(e) {
						hasSep = true
					}
				}
				ok = hasPrev && hasSep
			}
			r.Check(ok, fnName(fn), "index-key-choice", "the index key is the comparer's separator/successor, or the full last key when that is nil", "index key has other origins", p.Pos(idx.Pos()))
			_ = isNil
			// Separator(prevKey, key) / Successor(prevKey)
			okArgs := 0
			instrs(fn, func(_ *ssa.BasicBlock, _ int, in ssa.Instruction) {
				c, ok := in.(*ssa.Call)
				if !ok || !c.Call.IsInvoke() {
					return
				}
				switch c.Call.Method.Name() {
				case "Separator":
					if isFieldLoad(c.Call.Args[1], "leveldb/table.blockWriter", "prevKey") && mParam("key")(c.Call.Args[2]) {
						okArgs++
					}
				case "Successor":
					if isFieldLoad(c.Call.Args[1], "leveldb/table.blockWriter", "prevKey") {
						okArgs++
					}
				}
			})
			r.Check(okArgs == 2, fnName(fn), "separator-operands", "Separator(prevKey, key) between blocks, Successor(prevKey) at the end", fmt.Sprintf("%d of 2 calls with the right operands", okArgs), p.Pos(fn.Pos()))
			// between two blocks (a next key exists) the index key must be STRICTLY below the next
			// block's first key: the comparer's Separator(prevKey, key) guarantees that; a Successor
			// of prevKey does not (it may EQUAL the next key, which sends lookups of that key — and
			// its filter probe — to the wrong block). So with a non-empty key, a Successor result
			// reaches the index entry only over a comparison edge that establishes succ < key.
			{
				r.Site(1)
				isSucc := func(in ssa.Instruction) bool {
					c, ok := in.(*ssa.Call)
					return ok && c.Call.IsInvoke() && c.Call.Method.Name() == "Successor"
				}
				isSepCall := func(in ssa.Instruction) bool {
					c, ok := in.(*ssa.Call)
					return ok && c.Call.IsInvoke() && c.Call.Method.Name() == "Separator"
				}
				isLenKey := func(v ssa.Value) bool {
					c, ok := stripConv(v).(*ssa.Call)
					return ok && isCallTo(c, "builtin:len") && mParam("key")(c.Call.Args[0])
				}
				// len(key) == 0, knowing that a length is never negative (so `> 0` is its negation)
				lastBlock := Atom{Name: "len(key)==0", Match: func(cond ssa.Value) (int, int) {
					b, ok := cond.(*ssa.BinOp)
					if !ok || !isCmpOp(b.Op) {
						return 0, 0
					}
					op := b.Op
					switch {
					case isLenKey(b.X) && mConstInt(0)(b.Y):
					case isLenKey(b.Y) && mConstInt(0)(b.X):
						op = map[token.Token]token.Token{token.LSS: token.GTR, token.LEQ: token.GEQ, token.GTR: token.LSS, token.GEQ: token.LEQ, token.EQL: token.EQL, token.NEQ: token.NEQ}[op]
					default:
						return 0, 0
					}
					switch op {
					case token.EQL, token.LEQ:
						return +1, -1
					case token.NEQ, token.GTR:
						return -1, +1
					}
					return 0, 0
				}}
				below := cmpAtom("Compare(succ,key)<0", token.LSS, func(v ssa.Value) bool {
					c, ok := stripConv(v).(*ssa.Call)
					return ok && c.Call.IsInvoke() && c.Call.Method.Name() == "Compare"
				}, mConstInt(0))
				appendIdx := func(in ssa.Instruction) bool { return in == ssa.Instruction(idx) }
				as := []Atom{lastBlock, below}
				vs := []bool{false, false}
				if countInstr(fn, isSucc) == 0 {
					r.OK(fnName(fn), "index-key-below-next", "no Successor call: the index key between blocks comes from Separator")
				} else if findPathV(entryPoint(fn), atomEdges(as, vs), nil, isSucc, atomVals(as, vs)) == nil {
					r.OK(fnName(fn), "index-key-below-next", "Successor is computed for the last block only (no next key)")
				} else if w := findPathV(after(fn, isSucc), atomEdges(as, vs), isSepCall, appendIdx, atomVals(as, vs)); w != nil {
					r.Fail(fnName(fn), "index-key-below-next", "between two blocks the index key is strictly below the next block's first key (Separator, or a Successor proven < key)", "with a next key present, Successor(prevKey) can reach the index entry without Separator and without a comparison establishing succ < key: an index key equal to the next block's first key sends that key's lookup and filter probe to the wrong block", p.posOfLast(w, appendIdx), p.renderPath(w))
				} else {
					r.OK(fnName(fn), "index-key-below-next", "between two blocks the index key is strictly below the next block's first key (Separator, or a Successor proven < key)")
				}
			}
			// the handle recorded is the pending (just written) block
			checkCallArgEncode(p, r, fn)
		}
	}
}

func checkCallArgEncode(p *Prog, r *Report, fn *ssa.Function) {
	okv := false
	for _, c := range findCalls(fn, "leveldb/table.encodeBlockHandle") {
		if argIs(c, 1, mFieldLoad("leveldb/table.Writer", "pendingBH")) {
			okv = true
		}
	}
	r.Site(1)
	r.Check(okv, fnName(fn), "index-value-is-pending-handle", "the index entry's value is the handle of the block just written", "encodeBlockHandle is not given w.pendingBH", p.Pos(fn.Pos()))
}

func ruleKeyCodec(p *Prog, r *Report, rule string) {
	r.Begin(rule, "E-SIB", "internal key codec: makeInternalKey writes (seq<<8)|kind little-endian after the user key; parseInternalKey / num / ukey read the last 8 bytes, seq=num>>8, kind=num&0xff, ukey=ik[:len-8]; out-of-range seq/kind rejected on both sides; keyTypeSeek is the largest kind; keyMaxSeq = 2^56-1", 8)
	defer r.End()
	for name, want := range map[string]string{"keyTypeDel": "0", "keyTypeVal": "1", "keyTypeSeek": "1", "keyMaxSeq": "72057594037927935", "keyMaxNum": "18446744073709551361"} {
		got := constString(p, "leveldb", name)
		r.Site(1)
		r.Check(got == want, "leveldb."+name, "constant", name+" = "+want, "got "+got, "")
	}
	if fn := resolveFn(p, r, "leveldb", "makeInternalKey"); fn != nil {
		// value written
		okVal, okPos, okCopy := false, false, false
		instrs(fn, func(_ *ssa.BasicBlock, _ int, in ssa.Instruction) {
			c, ok := in.(*ssa.Call)
			if !ok {
				return
			}
			switch calleeName(&c.Call) {
			case "(encoding/binary.littleEndian).PutUint64":
				if b, ok := isBin(c.Call.Args[2], token.OR); ok {
					if sh, ok := isBin(b.X, token.SHL); ok && mParam("seq")(sh.X) && mConstInt(8)(sh.Y) && mParam("kt")(stripConv(b.Y)) {
						okVal = true
					}
				}
				if sl, ok := c.Call.Args[1].(*ssa.Slice); ok && sl.High == nil {
					if l, ok := sl.Low.(*ssa.Call); ok && isCallTo(l, "builtin:len") && mParam("ukey")(l.Call.Args[0]) {
						okPos = true
					}
				}
			case "builtin:copy":
				if mParam("ukey")(c.Call.Args[1]) {
					okCopy = true
				}
			}
		})
		r.Site(3)
		r.Check(okVal, fnName(fn), "trailer-value", "trailer = (seq<<8)|kind", "PutUint64 value is not (seq<<8)|kt", p.Pos(fn.Pos()))
		r.Check(okPos, fnName(fn), "trailer-position", "trailer is written at dst[len(ukey):]", "trailer position differs", p.Pos(fn.Pos()))
		r.Check(okCopy, fnName(fn), "ukey-copied", "the user key is copied in front of the trailer", "no copy(dst, ukey)", p.Pos(fn.Pos()))
		seqOver := cmpAtom("seq>keyMaxSeq", token.GTR, mParam("seq"), mKeyMaxSeq)
		ktOver := cmpAtom("kt>keyTypeVal", token.GTR, mParam("kt"), mConstInt(1))
		checkGuard(p, r, GuardSpec{Rule: "rejects-out-of-range", Fn: fn, Target: evCall("(encoding/binary.littleEndian).PutUint64"), TargetDesc: "encoding the key", Atoms: []Atom{seqOver, ktOver}, G: func(a []bool) bool { return !a[0] && !a[1] }, GDesc: "seq<=keyMaxSeq ∧ kind<=keyTypeVal", MinTargets: 1})
	}
	decode := func(fn *ssa.Function) (tail8, shr8, and255 bool) {
		instrs(fn, func(_ *ssa.BasicBlock, _ int, in ssa.Instruction) {
			switch x := in.(type) {
			case *ssa.Call:
				if calleeName(&x.Call) == "(encoding/binary.littleEndian).Uint64" {
					if sl, ok := stripConv(x.Call.Args[1]).(*ssa.Slice); ok && sl.High == nil {
						if b, ok := isBin(sl.Low, token.SUB); ok && mConstInt(8)(b.Y) {
							if l, ok := b.X.(*ssa.Call); ok && isCallTo(l, "builtin:len") {
								tail8 = true
							}
						}
					}
				}
			case *ssa.BinOp:
				if x.Op == token.SHR && mConstInt(8)(x.Y) {
					shr8 = true
				}
				if x.Op == token.AND && mConstInt(255)(x.Y) {
					and255 = true
				}
			}
		})
		return
	}
	if fn := resolveFn(p, r, "leveldb", "parseInternalKey"); fn != nil {
		t8, s8, a255 := decode(fn)
		r.Site(3)
		r.Check(t8, fnName(fn), "reads-last-8", "the trailer is read from ik[len(ik)-8:]", "different position", p.Pos(fn.Pos()))
		r.Check(s8, fnName(fn), "seq=num>>8", "seq = num >> 8", "different shift", p.Pos(fn.Pos()))
		r.Check(a255, fnName(fn), "kind=num&0xff", "kind = num & 0xff", "different mask", p.Pos(fn.Pos()))
		short := cmpAtom("len(ik)<8", token.LSS, func(v ssa.Value) bool { c, ok := v.(*ssa.Call); return ok && isCallTo(c, "builtin:len") }, mConstInt(8))
		badKind := cmpAtom("kt>keyTypeVal", token.GTR, func(v ssa.Value) bool { _, ok := stripConv(v).(*ssa.BinOp); return ok }, mConstInt(1))
		okRet := func(in ssa.Instruction) bool {
			ret, ok := in.(*ssa.Return)
			return ok && len(ret.Results) == 4 && isNilConst(retValue(ret, ret.Results[3]))
		}
		checkGuard(p, r, GuardSpec{Rule: "rejects-malformed", Fn: fn, Target: okRet, TargetDesc: "returning a parsed key (nil error)", Atoms: []Atom{short, badKind}, G: func(a []bool) bool { return !a[0] && !a[1] }, GDesc: "len(ik)>=8 ∧ kind<=keyTypeVal", MinTargets: 1})
		// ukey = ik[:len(ik)-8]
		okU := false
		instrs(fn, func(_ *ssa.BasicBlock, _ int, in ssa.Instruction) {
			if sl, ok := in.(*ssa.Slice); ok && sl.Low == nil && sl.High != nil {
				if b, ok := isBin(sl.High, token.SUB); ok && mConstInt(8)(b.Y) {
					okU = true
				}
			}
		})
		r.Check(okU, fnName(fn), "ukey-prefix", "ukey = ik[:len(ik)-8]", "different slicing", p.Pos(fn.Pos()))
	}
	if fn := resolveFn(p, r, "leveldb", "internalKey.num"); fn != nil {
		t8, _, _ := decode(fn)
		r.Site(1)
		r.Check(t8, fnName(fn), "reads-last-8", "num() reads the last 8 bytes little-endian", "different position", p.Pos(fn.Pos()))
	}
	if fn := resolveFn(p, r, "leveldb", "internalKey.ukey"); fn != nil {
		okU := false
		instrs(fn, func(_ *ssa.BasicBlock, _ int, in ssa.Instruction) {
			if sl, ok := in.(*ssa.Slice); ok && sl.Low == nil && sl.High != nil {
				if b, ok := isBin(sl.High, token.SUB); ok && mConstInt(8)(b.Y) {
					okU = true
				}
			}
		})
		r.Site(1)
		r.Check(okU, fnName(fn), "ukey-prefix", "ukey() = ik[:len(ik)-8]", "different slicing", p.Pos(fn.Pos()))
	}
	// keyMaxNumBytes initialised with keyMaxNum little-endian
	if fn := p.Fn("leveldb", "init"); fn != nil {
		_ = fn
	}
}
