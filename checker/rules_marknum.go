package main

import (
	"fmt"
	"go/token"
	"math"

	"golang.org/x/tools/go/ssa"
)

// ruleMarkFileNum: session.markFileNum(num) is what keeps freshly allocated file numbers above
// every number seen on storage (journal replay marks each journal, Recover marks the highest table):
// when it returns the counter is > num, and it never lowers the counter. Decided by a tiny interval
// analysis on d = old-num over every acyclic path of one loop iteration (load … CAS / return):
//   - a CAS installs a value v with v >= num+1 and v >= old;
//   - a return is reached through a successful CAS, or with old >= num+1 established by the branches.
func ruleMarkFileNum(p *Prog, r *Report, rule string) {
	r.Begin(rule, "E-GUARD", "session.markFileNum(num) leaves the file-number counter above num and never lowers it: every CAS installs max(old, num+1) (or num+1 where old<=num is established), and every return follows a successful CAS or a test establishing old>num", 3)
	defer r.End()
	fn := resolveFn(p, r, "leveldb", "(*session).markFileNum")
	if fn == nil {
		return
	}
	fileNumCasWalk(p, r, fn, false)
}

// ruleReuseFileNum: session.reuseFileNum(num) gives a number back to the allocator — concurrently
// with allocFileNum on other goroutines (flush, table compaction, transaction). The counter may go
// back only from num+1 to num, and only atomically: a check followed by a separate store rewinds
// the counter below a number another goroutine was handed in between, and that number is then
// allocated twice — the second owner truncates or removes a live table's file. Same walker as
// markFileNum: every CAS compares against the value loaded in this iteration (or a value the
// branches proved equal to it) and installs either that same value or num where old == num+1 holds.
// The whole module changes the counter only with atomic read-modify-write operations; the plain
// atomic store (setNextFileNum) is reached only from session.recover, before anything runs.
func ruleReuseFileNum(p *Prog, r *Report, rule string) {
	r.Begin(rule, "E-GUARD", "the file-number counter: session.reuseFileNum lowers it only from num+1 to num and only by a compare-and-swap against the loaded value; everywhere else it changes by atomic add or CAS; the atomic store (setNextFileNum) is called from session.recover only; no plain access", 5)
	defer r.End()
	if fn := resolveFn(p, r, "leveldb", "(*session).reuseFileNum"); fn != nil {
		fileNumCasWalk(p, r, fn, true)
	}
	isCounterAddr := func(v ssa.Value) bool { return isFieldAddr(v, "leveldb.session", "stNextFileNum") }
	n := 0
	for _, fn := range p.SrcFuncs("leveldb") {
		instrs(fn, func(_ *ssa.BasicBlock, _ int, in ssa.Instruction) {
			fa, ok := in.(*ssa.FieldAddr)
			if !ok || !isCounterAddr(fa) {
				return
			}
			for _, ref := range *fa.Referrers() {
				if _, dbg := ref.(*ssa.DebugRef); dbg {
					continue
				}
				n++
				key := "atomic-access@" + fnName(fn)
				c, isCall := ref.(*ssa.Call)
				var f *ssa.Function
				if isCall {
					f = staticCallee(&c.Call)
				}
				if f == nil || f.Pkg == nil || f.Pkg.Pkg.Path() != "sync/atomic" {
					r.Fail(fnName(fn), key, "the counter is accessed through sync/atomic only", "plain access to session.stNextFileNum", p.Pos(ref.Pos()), nil)
					continue
				}
				switch f.Name() {
				case "LoadInt64", "AddInt64", "CompareAndSwapInt64":
					r.OK(fnName(fn), key, "the counter is accessed through sync/atomic only")
				case "StoreInt64":
					r.Check(fnName(fn) == "(*leveldb.session).setNextFileNum", fnName(fn), "no-blind-store@"+fnName(fn), "the counter is overwritten (atomic store) only by setNextFileNum", "atomic.StoreInt64 on the counter: an allocation made between the decision and the store is lost and its number handed out again", p.Pos(ref.Pos()))
				default:
					r.Fail(fnName(fn), key, "the counter is accessed through sync/atomic only", "unexpected atomic operation "+f.Name(), p.Pos(ref.Pos()), nil)
				}
			}
		})
	}
	r.Site(n)
	// setNextFileNum is used during recovery only
	callers := 0
	for _, fn := range p.SrcFuncs("leveldb") {
		for _, c := range findCalls(fn, "(*leveldb.session).setNextFileNum") {
			callers++
			r.Check(fnName(fn) == "(*leveldb.session).recover", fnName(fn), "store-only-at-recovery@"+fnName(fn), "setNextFileNum is called from session.recover only (nothing allocates concurrently then)", "called from "+fnName(fn), p.Pos(c.Pos()))
		}
	}
	r.Site(callers)
	r.Check(callers >= 1, "leveldb", "recovery-sets-counter", "session.recover installs the manifest's next file number", fmt.Sprintf("%d callers", callers), "")
}

// fileNumCasWalk: the interval walker shared by markFileNum (reuse=false) and reuseFileNum (reuse=true).
func fileNumCasWalk(p *Prog, r *Report, fn *ssa.Function, reuse bool) {
	what := "markFileNum leaves the counter above num and never lowers it"
	if reuse {
		what = "reuseFileNum lowers the counter only from num+1 to num, by a CAS against the loaded value"
	}
	num := ssa.Value(fn.Params[1])
	// offset of a value relative to num: v == num+k
	relNum := func(v ssa.Value) (int64, bool) {
		v = stripConv(v)
		if v == num {
			return 0, true
		}
		if b, ok := v.(*ssa.BinOp); ok && (b.Op == token.ADD || b.Op == token.SUB) {
			if stripConv(b.X) == num {
				if k, ok := constInt(b.Y); ok {
					if b.Op == token.SUB {
						k = -k
					}
					return k, true
				}
			}
			if b.Op == token.ADD && stripConv(b.Y) == num {
				if k, ok := constInt(b.X); ok {
					return k, true
				}
			}
		}
		return 0, false
	}
	isCounterAddr := func(v ssa.Value) bool { return isFieldAddr(v, "leveldb.session", "stNextFileNum") }
	isLoad := func(in ssa.Instruction) bool {
		c, ok := in.(*ssa.Call)
		if !ok {
			return false
		}
		f := staticCallee(&c.Call)
		return f != nil && f.Pkg != nil && f.Pkg.Pkg.Path() == "sync/atomic" && f.Name() == "LoadInt64" && isCounterAddr(c.Call.Args[0])
	}
	isCAS := func(in ssa.Instruction) bool {
		c, ok := in.(*ssa.Call)
		if !ok {
			return false
		}
		f := staticCallee(&c.Call)
		return f != nil && f.Pkg != nil && f.Pkg.Pkg.Path() == "sync/atomic" && f.Name() == "CompareAndSwapInt64" && isCounterAddr(c.Call.Args[0])
	}
	// any other write to the counter inside markFileNum is outside the analysed shape
	otherWrite := countInstr(fn, func(in ssa.Instruction) bool {
		switch x := in.(type) {
		case *ssa.Store:
			return isCounterAddr(x.Addr)
		case *ssa.Call:
			f := staticCallee(&x.Call)
			if f != nil && f.Pkg != nil && f.Pkg.Pkg.Path() == "sync/atomic" && len(x.Call.Args) > 0 && isCounterAddr(x.Call.Args[0]) {
				return f.Name() != "LoadInt64" && f.Name() != "CompareAndSwapInt64"
			}
		}
		return false
	})
	r.Site(1)
	r.Check(otherWrite == 0, fnName(fn), "counter-updated-by-cas-only", "the counter changes only through compare-and-swap against the value loaded", fmt.Sprintf("%d other writes (store / add)", otherWrite), p.Pos(fn.Pos()))
	nLoad, nCAS := countInstr(fn, isLoad), countInstr(fn, isCAS)
	r.Site(nLoad + nCAS)
	if reuse && nCAS == 0 && otherWrite == 0 {
		// giving nothing back is safe (a gap in the numbers); nothing further to decide
		r.OK(fnName(fn), "load-cas-loop", "loads the counter and installs the new value with a CAS")
		return
	}
	r.Check((nLoad >= 1 || reuse) && nCAS >= 1, fnName(fn), "load-cas-loop", "loads the counter and installs the new value with a CAS", fmt.Sprintf("%d loads, %d CAS", nLoad, nCAS), p.Pos(fn.Pos()))
	if (nLoad == 0 && !reuse) || nCAS == 0 {
		return
	}

	type iv struct{ lo, hi int64 } // interval of d = old-num
	var fails []string
	seenFail := map[string]bool{}
	fail := func(kind, detail, pos string) {
		if !seenFail[kind+pos] {
			seenFail[kind+pos] = true
			fails = append(fails, kind)
			r.Fail(fnName(fn), kind, what, detail, pos, nil)
		}
	}
	nPaths := 0
	var walk func(b *ssa.BasicBlock, idx int, prev *ssa.BasicBlock, old ssa.Value, d iv, casOK bool, onPath map[*ssa.BasicBlock]bool, env map[ssa.Value]ssa.Value)
	// value of v relative to num as an interval, given old's interval, resolving phis by the edge taken
	var relIv func(v ssa.Value, old ssa.Value, d iv, b, prev *ssa.BasicBlock, depth int) (iv, bool)
	relIv = func(v ssa.Value, old ssa.Value, d iv, b, prev *ssa.BasicBlock, depth int) (iv, bool) {
		v = stripConv(v)
		if v == old {
			return d, true
		}
		if k, ok := relNum(v); ok {
			return iv{k, k}, true
		}
		return iv{}, false
	}
	walk = func(b *ssa.BasicBlock, idx int, prev *ssa.BasicBlock, old ssa.Value, d iv, casOK bool, onPath map[*ssa.BasicBlock]bool, env map[ssa.Value]ssa.Value) {
		// phi environment: the values phis of this block take on the edge prev→b
		phiVal := map[ssa.Value]ssa.Value{}
		for k, v := range env {
			phiVal[k] = v
		}
		if prev != nil {
			pi := -1
			for i, pr := range b.Preds {
				if pr == prev {
					pi = i
				}
			}
			for _, in := range b.Instrs {
				if ph, ok := in.(*ssa.Phi); ok && pi >= 0 {
					e := stripConv(ph.Edges[pi])
					if x, ok := env[e]; ok {
						e = x
					}
					phiVal[ph] = e
				}
			}
		}
		res := func(v ssa.Value) ssa.Value {
			v = stripConv(v)
			if x, ok := phiVal[v]; ok {
				return stripConv(x)
			}
			return v
		}
		for i := idx; i < len(b.Instrs); i++ {
			in := b.Instrs[i]
			switch {
			case isLoad(in):
				if old != nil {
					return // next iteration: analysed from its own load
				}
			case isCAS(in):
				c := in.(*ssa.Call)
				if reuse {
					e, n := res(c.Call.Args[1]), res(c.Call.Args[2])
					// what the swap itself establishes about the counter: old-num (when comparing against the loaded
					// value) or the constant offset of the expected operand
					var ed iv
					switch ke, isRel := relNum(e); {
					case old != nil && e == old:
						ed = d
					case isRel:
						ed = iv{ke, ke}
					default:
						fail("cas-against-loaded-value", "the CAS at "+p.Pos(in.Pos())+" compares against neither the value loaded in this iteration nor num+k", p.Pos(in.Pos()))
						return
					}
					nPaths++
					kn, isRel := relNum(n)
					switch {
					case n == e:
						// installs what is there: no change
					case isRel && ed.lo == ed.hi && kn == ed.lo:
						// the same value, spelled num+k
					case isRel && kn == 0 && ed.lo == 1 && ed.hi == 1:
						// num+1 → num
					default:
						fail("lowered-only-from-num+1", fmt.Sprintf("the CAS at %s can install a value other than the expected one without the counter being num+1 (counter-num in [%d,%d]): the counter is rewound below numbers in use", p.Pos(in.Pos()), ed.lo, ed.hi), p.Pos(in.Pos()))
					}
					return
				}
				if old == nil || res(c.Call.Args[1]) != old {
					fail("cas-against-loaded-value", "the CAS at "+p.Pos(in.Pos())+" does not compare against the value loaded in this iteration", p.Pos(in.Pos()))
					return
				}
				nv, ok := relIv(res(c.Call.Args[2]), old, d, b, prev, 0)
				if !ok {
					fail("cas-installs-max", "the value installed by the CAS at "+p.Pos(in.Pos())+" is neither the loaded value nor num+k", p.Pos(in.Pos()))
					return
				}
				nPaths++
				if nv.lo < 1 {
					fail("cas-installs-max", fmt.Sprintf("a path installs a value that may be <= num (value-num >= %d only) at %s: the marked number can be allocated again", nv.lo, p.Pos(in.Pos())), p.Pos(in.Pos()))
				}
				// never lowers: nv >= old on this path. nv is either old itself (same interval object) or a constant offset
				if res(c.Call.Args[2]) != old && nv.lo < d.hi {
					fail("cas-never-lowers", fmt.Sprintf("a path installs num%+d while the loaded counter may be as high as num%+d (at %s): the counter can move backwards", nv.lo, d.hi, p.Pos(in.Pos())), p.Pos(in.Pos()))
				}
				// follow the branch on the CAS result
				if ifi, ok := b.Instrs[len(b.Instrs)-1].(*ssa.If); ok && stripConv(ifi.Cond) == ssa.Value(c) {
					if !onPath[b.Succs[0]] {
						onPath[b.Succs[0]] = true
						walk(b.Succs[0], 0, b, old, d, true, onPath, phiVal)
						delete(onPath, b.Succs[0])
					}
					// failure edge: retry; a new iteration begins at the next load
					if !onPath[b.Succs[1]] {
						onPath[b.Succs[1]] = true
						walk(b.Succs[1], 0, b, nil, iv{math.MinInt32, math.MaxInt32}, false, onPath, phiVal)
						delete(onPath, b.Succs[1])
					}
					return
				}
				// result not branched on directly: treat as unknown outcome
			}
			if isLoad(in) && old == nil {
				old = in.(*ssa.Call)
				d = iv{math.MinInt32, math.MaxInt32}
			}
			if _, ok := in.(*ssa.Return); ok {
				nPaths++
				if !reuse && !casOK && !(old != nil && d.lo >= 1) {
					lo := "unknown"
					if old != nil {
						lo = fmt.Sprintf("old-num >= %d", d.lo)
					}
					fail("return-above-num", "a path returns without a successful CAS and without old > num established ("+lo+") at "+p.Pos(in.Pos())+": num stays allocatable", p.Pos(in.Pos()))
				}
				return
			}
		}
		last := b.Instrs[len(b.Instrs)-1]
		switch t := last.(type) {
		case *ssa.If:
			dT, dF := d, d
			feasT, feasF := true, true
			if cmp, ok := stripConv(t.Cond).(*ssa.BinOp); ok && old != nil {
				x, y := res(cmp.X), res(cmp.Y)
				op := cmp.Op
				var k int64
				okc := false
				if x == old {
					k, okc = relNum(y)
				} else if y == old {
					k, okc = relNum(x)
					switch op { // flip
					case token.LSS:
						op = token.GTR
					case token.LEQ:
						op = token.GEQ
					case token.GTR:
						op = token.LSS
					case token.GEQ:
						op = token.LEQ
					}
				}
				if okc { // d OP k
					refine := func(d iv, op token.Token) (iv, bool) {
						switch op {
						case token.GTR:
							if d.lo < k+1 {
								d.lo = k + 1
							}
						case token.GEQ:
							if d.lo < k {
								d.lo = k
							}
						case token.LSS:
							if d.hi > k-1 {
								d.hi = k - 1
							}
						case token.LEQ:
							if d.hi > k {
								d.hi = k
							}
						case token.EQL:
							if d.lo < k {
								d.lo = k
							}
							if d.hi > k {
								d.hi = k
							}
						}
						return d, d.lo <= d.hi
					}
					neg := map[token.Token]token.Token{token.GTR: token.LEQ, token.GEQ: token.LSS, token.LSS: token.GEQ, token.LEQ: token.GTR, token.EQL: token.NEQ, token.NEQ: token.EQL}
					dT, feasT = refine(d, op)
					dF, feasF = refine(d, neg[op])
				}
			}
			for si, s := range b.Succs {
				dd, feas := dT, feasT
				if si == 1 {
					dd, feas = dF, feasF
				}
				if !feas || onPath[s] {
					continue
				}
				onPath[s] = true
				walk(s, 0, b, old, dd, casOK, onPath, phiVal)
				delete(onPath, s)
			}
		default:
			for _, s := range b.Succs {
				if onPath[s] {
					// back edge: the next iteration is analysed from the loop head's load by the entry walk
					continue
				}
				onPath[s] = true
				walk(s, 0, b, old, d, casOK, onPath, phiVal)
				delete(onPath, s)
			}
		}
	}
	entry := fn.Blocks[0]
	walk(entry, 0, nil, nil, iv{math.MinInt32, math.MaxInt32}, false, map[*ssa.BasicBlock]bool{entry: true}, nil)
	r.Site(nPaths)
	if len(fails) == 0 {
		if reuse {
			r.Check(nPaths >= 1, fnName(fn), "counter-lowered-atomically", "every CAS installs the loaded value or num where old == num+1", fmt.Sprintf("%d paths analysed", nPaths), p.Pos(fn.Pos()))
		} else {
			r.Check(nPaths >= 1, fnName(fn), "counter-above-num", "every CAS installs max(old, num+1) and every return follows a successful CAS or old>num", fmt.Sprintf("%d paths analysed", nPaths), p.Pos(fn.Pos()))
		}
	}
}
