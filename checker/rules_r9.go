package main

import (
	"fmt"
	"go/constant"
	"go/token"

	"golang.org/x/tools/go/ssa"
)

// ruleCompactionInputsStrict: a compaction rewrites its inputs and then deletes them, so a damaged
// input block must stop it — with StrictCompaction (default) the per-table iterators have to be
// strict readers. compaction.newIterator builds their ReadOptions with StrictOverride (the DB's own
// strictness does not apply) and must therefore add StrictReader itself: with strict = true every
// path to a call that hands the options on passes `ro.Strict |= StrictReader`. Without it a
// checksum-failing block is skipped silently, the output lacks its entries, the inputs are removed:
// acknowledged writes are gone and an older version is served.
func ruleCompactionInputsStrict(p *Prog, r *Report, rule string) {
	r.Begin(rule, "E-ORD", "compaction.newIterator: under StrictCompaction the read options given to the table iterators carry StrictReader (ro.Strict |= StrictReader precedes every use of the options)", 2)
	defer r.End()
	fn := resolveFn(p, r, "leveldb", "(*compaction).newIterator")
	if fn == nil {
		return
	}
	var strictReader int64 = -1
	if pk := p.ByRel["leveldb/opt"]; pk != nil {
		if c, ok := pk.Members["StrictReader"].(*ssa.NamedConst); ok {
			strictReader, _ = constant.Int64Val(c.Value.Value)
		}
	}
	r.Check(strictReader > 0, "leveldb/opt", "strict-reader-constant", "opt.StrictReader exists", "constant not found", "")
	tRO := "leveldb/opt.ReadOptions"
	addsReader := func(in ssa.Instruction) bool {
		st, ok := in.(*ssa.Store)
		if !ok || !isFieldAddr(st.Addr, tRO, "Strict") {
			return false
		}
		b, ok := st.Val.(*ssa.BinOp)
		if !ok || b.Op != token.OR {
			return false
		}
		return mConstInt(strictReader)(b.X) || mConstInt(strictReader)(b.Y)
	}
	// uses of the options: calls that receive the *ReadOptions value
	usesRO := func(in ssa.Instruction) bool {
		cc := callCommon(in)
		if cc == nil {
			return false
		}
		for _, a := range cc.Args {
			if namedOf(derefT(a.Type())) == tRO {
				if _, isAlloc := stripConv(a).(*ssa.Alloc); isAlloc {
					return true
				}
			}
		}
		return false
	}
	strict := assumeBool(func(v ssa.Value) (bool, bool) {
		if mStrictFlag("")(v) {
			return true, true
		}
		return false, false
	})
	ordPrecede(p, r, fn, "strict-reader-before-use", strict, addsReader, "ro.Strict |= opt.StrictReader", usesRO, "handing the read options to a table iterator")
}

// ruleCompTriggerSiblings: compTriggerWait and compTriggerRange speak the same protocol with the
// compaction goroutines: offer the command, and wait for its acknowledgement, each time also
// listening for a pending compaction error (compErrC) and for Close (closeC). The command channel
// is unbuffered and its only receiver may be retrying a failing compaction for a long time, or be
// gone after a corruption: without the compErrC arm on the send the caller blocks with it.
func ruleCompTriggerSiblings(p *Prog, r *Report, rule string) {
	r.Begin(rule, "E-SIB", "compTriggerWait and compTriggerRange use the same two selects: {send command, <-compErrC, <-closeC} then {<-ack, <-compErrC, <-closeC}", 2)
	defer r.End()
	sig := func(fn *ssa.Function) []string {
		var out []string
		for _, op := range chanOps(fn) {
			if op.kind == "select" {
				out = append(out, op.key[len(fnName(fn)):])
			}
		}
		return out
	}
	w := resolveFn(p, r, "leveldb", "(*DB).compTriggerWait")
	g := resolveFn(p, r, "leveldb", "(*DB).compTriggerRange")
	if w == nil || g == nil {
		return
	}
	a, b := sig(w), sig(g)
	r.Site(len(a) + len(b))
	r.Check(fmt.Sprint(a) == fmt.Sprint(b) && len(a) == 2, "(*leveldb.DB).compTriggerWait~(*leveldb.DB).compTriggerRange", "select-agreement", "both functions offer the command and await the acknowledgement with the same alternatives", fmt.Sprintf("compTriggerWait: %v; compTriggerRange: %v", a, b), p.Pos(g.Pos()))
	// and each select has the error and the close alternative
	for _, fn := range []*ssa.Function{w, g} {
		for i, s := range sig(fn) {
			okv := containsAll(s, "compErrC", "closeC")
			r.Check(okv, fnName(fn), fmt.Sprintf("select#%d-has-error-and-close", i), "the select also listens on compErrC and closeC", "alternatives: "+s, p.Pos(fn.Pos()))
		}
	}
}

func containsAll(s string, subs ...string) bool {
	for _, x := range subs {
		found := false
		for i := 0; i+len(x) <= len(s); i++ {
			if s[i:i+len(x)] == x {
				found = true
				break
			}
		}
		if !found {
			return false
		}
	}
	return true
}
