package main

import (
	"go/constant"
	"go/token"

	"golang.org/x/tools/go/ssa"
)

// ruleRecoverNeverStrictReader: Recover salvages — its table iterators must not be strict readers,
// or the scan and the rebuild of a damaged table stop at the first damaged block and lose every
// entry behind it. recoverTable masks StrictReader out of its copy of the options; Options.GetStrict
// reads Strict == 0 as DefaultStrict, which contains StrictReader, so the masked value must not be
// left at zero (D18: Options{Strict: StrictReader}). After the masking store, on every path on which
// Strict == 0 holds, a non-zero value without the StrictReader bit is stored before the options are
// used (GetStrict, table.NewReader, or captured by the per-table closures).
func ruleRecoverNeverStrictReader(p *Prog, r *Report, rule string) {
	r.Begin(rule, "E-ORD", "recoverTable's options can never make a table iterator strict: StrictReader is masked out of Options.Strict and a masked value of 0 (= DefaultStrict, which has StrictReader) is replaced by a non-zero value without that bit before the options are used", 2)
	defer r.End()
	fn := resolveFn(p, r, "leveldb", "recoverTable")
	if fn == nil {
		return
	}
	var sr int64 = -1
	if pk := p.ByRel["leveldb/opt"]; pk != nil {
		if c, ok := pk.Members["StrictReader"].(*ssa.NamedConst); ok {
			sr, _ = constant.Int64Val(c.Value.Value)
		}
	}
	if sr <= 0 {
		r.Fail("leveldb/opt.StrictReader", "unresolved-anchor", "opt.StrictReader exists", "constant not found", "", nil)
		return
	}
	tO := "leveldb/opt.Options"
	strictStore := func(in ssa.Instruction) (*ssa.Store, bool) {
		st, ok := in.(*ssa.Store)
		return st, ok && isFieldAddr(st.Addr, tO, "Strict")
	}
	mask := func(in ssa.Instruction) bool {
		st, ok := strictStore(in)
		if !ok {
			return false
		}
		b, ok := stripConv(st.Val).(*ssa.BinOp)
		if !ok {
			return false
		}
		for _, side := range []ssa.Value{b.X, b.Y} {
			if c, isC := constInt(side); isC {
				switch b.Op {
				case token.AND_NOT:
					return c&sr != 0
				case token.AND:
					return c&sr == 0
				}
			}
		}
		return false
	}
	nonZeroNoReader := func(in ssa.Instruction) bool {
		st, ok := strictStore(in)
		if !ok {
			return false
		}
		c, isC := constInt(st.Val)
		return isC && c != 0 && c&sr == 0
	}
	use := func(in ssa.Instruction) bool {
		if _, ok := in.(*ssa.MakeClosure); ok {
			return true
		}
		return isCallTo(in, "(*leveldb/opt.Options).GetStrict", "leveldb/table.NewReader")
	}
	if !requireSites(p, r, fn, "mask", "Options.Strict &^= StrictReader", mask, 1) {
		return
	}
	if !requireSites(p, r, fn, "use", "a use of the options (GetStrict / table.NewReader / closure)", use, 1) {
		return
	}
	as := []Atom{cmpAtom("Strict==0", token.EQL, mFieldLoad(tO, "Strict"), mConstInt(0))}
	vs := []bool{true}
	if w := findPathV(after(fn, mask), atomEdges(as, vs), nonZeroNoReader, use, atomVals(as, vs)); w != nil {
		r.Fail(fnName(fn), "masked-zero-replaced", "a masked Strict of 0 is replaced by a non-zero value without StrictReader before the options are used", "with Strict == 0 after the mask a path reaches a use of the options: GetStrict answers from DefaultStrict, the recovery iterators are strict readers and stop at the first damaged block", p.posOfLast(w, use), p.renderPath(w))
	} else {
		r.OK(fnName(fn), "masked-zero-replaced", "a masked Strict of 0 is replaced by a non-zero value without StrictReader before the options are used")
	}
	// nothing puts the bit back
	bad := ""
	instrs(fn, func(_ *ssa.BasicBlock, _ int, in ssa.Instruction) {
		if st, ok := strictStore(in); ok && !mask(in) && !nonZeroNoReader(in) {
			bad = p.Pos(st.Pos())
		}
	})
	r.Check(bad == "", fnName(fn), "no-other-strict-store", "recoverTable writes Options.Strict only to mask StrictReader or to replace a zero", "another store to Options.Strict at "+bad, bad)
}
