package main

import (
	"go/token"

	"golang.org/x/tools/go/ssa"
)

// ruleWriteBlockErrorStops: journal.Writer.writeBlock ASSIGNS w.err (it does not accumulate): a
// failed block write is remembered only until the next writeBlock, whose success overwrites it with
// nil. Every caller therefore tests w.err right after the call and leaves: from a writeBlock call
// on which w.err != nil, no path reaches another writeBlock or a return without passing the test.
// Otherwise a record loses a 32 KiB block in the middle, Write/Flush/Sync all succeed, the write is
// acknowledged, and recovery drops the misaligned chunks: an acknowledged write is gone.
func ruleWriteBlockErrorStops(p *Prog, r *Report, rule string) {
	r.Begin(rule, "E-ORD", "journal writer: after every writeBlock() (which overwrites w.err) the caller tests w.err and returns the error before another block can be written — with w.err != nil no path from a writeBlock call reaches a further writeBlock, or a return that does not come from the test's error side", 2)
	defer r.End()
	wb := evCall("(*leveldb/journal.Writer).writeBlock")
	n := 0
	for _, fn := range p.SrcFuncs("leveldb/journal") {
		c := countInstr(fn, wb)
		if c == 0 {
			continue
		}
		n += c
		r.Fn(fnName(fn))
		as := []Atom{nilAtom("w.err==nil", mFieldLoad(tJW, "err"))}
		vs := []bool{false}
		// (a) no second block write while the error stands
		if w := findPathV(after(fn, wb), atomEdges(as, vs), nil, wb, atomVals(as, vs)); w != nil {
			r.Fail(fnName(fn), "block-write-error-stops", "a failed block write ends the call before the next block is written", "with w.err != nil after writeBlock() a path reaches another writeBlock(): its success overwrites the error with nil and the record silently lacks a block", p.posOfLast(w, wb), p.renderPath(w))
			continue
		}
		// (b) and the error is tested at all before the function goes on: a return reached from the
		// call without any test of w.err on the way (the test removed entirely)
		tested := func(in ssa.Instruction) bool {
			iff, ok := in.(*ssa.If)
			if !ok {
				return false
			}
			x, _, isNil := condNilTest(iff.Cond)
			return isNil && (mFieldLoad(tJW, "err")(x) || mFieldLoad(tJW, "err")(testedValue(x)))
		}
		if w := findPathV(after(fn, wb), nil, tested, isReturn, nil); w != nil {
			r.Fail(fnName(fn), "block-write-error-tested", "w.err is tested after writeBlock() before the function returns", "a path from writeBlock() to a return passes no test of w.err", p.posOfLast(w, isReturn), p.renderPath(w))
			continue
		}
		r.OK(fnName(fn), "block-write-error-stops", "a failed block write ends the call before the next block is written")
	}
	r.Site(n)
}

// ruleWriteOptionsForwarded: DB.Put and DB.Delete are thin fronts of putRec; the caller's
// WriteOptions decide durability (Sync) and merging (NoWriteMerge) there. Both hand putRec the very
// options value they were given — a rebuilt options struct that copies one setting drops the other
// (a synced Delete acknowledged after a mere flush).
func ruleWriteOptionsForwarded(p *Prog, r *Report, rule string) {
	r.Begin(rule, "E-FLOW", "DB.Put and DB.Delete pass the caller's *WriteOptions to putRec unchanged (Sync and NoWriteMerge are read there)", 2)
	defer r.End()
	for _, m := range []string{"(*DB).Put", "(*DB).Delete"} {
		fn := resolveFn(p, r, "leveldb", m)
		if fn == nil {
			continue
		}
		var wo *ssa.Parameter
		for _, pa := range fn.Params {
			if namedOf(derefT(pa.Type())) == "leveldb/opt.WriteOptions" {
				wo = pa
			}
		}
		if wo == nil {
			r.Fail(fnName(fn), "unresolved-anchor", "the method has a *WriteOptions parameter", "no such parameter", p.Pos(fn.Pos()), nil)
			continue
		}
		n, bad := 0, ""
		instrs(fn, func(_ *ssa.BasicBlock, _ int, in ssa.Instruction) {
			cc := callCommon(in)
			if cc == nil {
				return
			}
			for _, a := range cc.Args {
				if namedOf(derefT(a.Type())) != "leveldb/opt.WriteOptions" {
					continue
				}
				n++
				if stripConv(a) != ssa.Value(wo) {
					bad = p.Pos(in.Pos())
				}
			}
		})
		r.Site(n)
		r.Check(n >= 1 && bad == "", fnName(fn), "options-forwarded", "every callee that takes write options receives the caller's value", "a callee is given other write options than the caller's at "+bad+" (or none is passed on)", p.Pos(fn.Pos()))
	}
}

// ruleTrBufferResetSoleHolder: Transaction.NewIterator pins the transaction's buffer with a
// reference; flush may clear the buffer in place only when the transaction is its sole holder
// (getref() == 1), otherwise it lets go of it and takes a fresh one. Resetting a shared buffer
// empties a live iterator: it shows a state that never existed (a frozen view must not change).
func ruleTrBufferResetSoleHolder(p *Prog, r *Report, rule string) {
	r.Begin(rule, "E-GUARD", "Transaction.flush resets the buffer in place only when no iterator holds it (getref() == 1)", 1)
	defer r.End()
	if fn := resolveFn(p, r, "leveldb", "(*Transaction).flush"); fn != nil {
		sole := cmpAtom("getref()==1", token.EQL, mCall("(*leveldb.memDB).getref"), mConstInt(1))
		checkGuard(p, r, GuardSpec{Rule: "reset-only-if-sole-holder", Fn: fn, Target: evCall("(*leveldb/memdb.DB).Reset"), TargetDesc: "tr.mem.Reset()", Atoms: []Atom{sole}, G: func(a []bool) bool { return a[0] }, GDesc: "no iterator holds the buffer (getref()==1)", MinTargets: 1})
	}
}
