package main

import (
	"fmt"
)

// ruleWritersCopyKeys: compaction and flush feed the table writers from iterators that REUSE their
// key/value buffers on every step. Whatever a writer keeps across calls (previous key for prefix
// compression and index separators, first/last key of the table, the pending filter keys) must be
// a copy; a retained alias silently changes with the next entry.
func ruleWritersCopyKeys(p *Prog, r *Report, rule string) {
	r.Begin(rule, "E-FLOW", "table writers copy what they keep: the []byte parameters of table.Writer.Append, blockWriter.append, filterWriter.add, tWriter.append, tableCompactionBuilder.appendKV and journal/batch appenders are neither retained in a field nor modified (argument-taint summaries, callbacks resolved)", 8)
	defer r.End()
	tc := newTaint(p)
	n := 0
	for _, sp := range []struct{ pkg, name string }{
		{"leveldb/table", "(*Writer).Append"},
		{"leveldb/table", "(*blockWriter).append"},
		{"leveldb/table", "(*filterWriter).add"},
		{"leveldb", "(*tWriter).append"},
		{"leveldb", "(*tableCompactionBuilder).appendKV"},
		{"leveldb", "(*Batch).appendRec"},
		{"leveldb/filter", "(*bloomFilterGenerator).Add"},
	} {
		fn := resolveFn(p, r, sp.pkg, sp.name)
		if fn == nil {
			continue
		}
		for i, pa := range fn.Params {
			if !isByteSlice(pa.Type()) {
				continue
			}
			n++
			r.Site(1)
			s := tc.analyzeParam(fn, i)
			r.Check(len(s.issues) == 0, fnName(fn), "param:"+pa.Name(), "parameter "+pa.Name()+" is neither retained nor modified (the caller's iterator reuses that buffer)", fmt.Sprint(s.issues), p.Pos(fn.Pos()))
		}
	}
	r.Check(n >= 10, "writers", "params", "the writers' []byte parameters were analysed", fmt.Sprintf("%d parameters", n), "")
}
