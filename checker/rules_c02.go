package main

import (
	"fmt"
	"go/token"
	"go/types"
	"sort"
	"strings"

	"golang.org/x/tools/go/ssa"
)

func init() {
	register(&propDef{
		id:          "C02",
		run:         runC02,
		explanation: "Static analysis of the iterator stack: (1) comparer discipline in db_iter.go, iterator/*, table/reader.go and memdb (heap order, block seek, skip-list search go through the comparer); (2) the visibility and tombstone guards of dbIter.next/prev extracted from the SSA branch structure (an entry surfaces only when seq <= snapshot seq, kind==value and it is the first/greater user key; tombstones record the key so older versions are skipped); (3) probe construction in Seek and range conversion in newIterator; (4) no source is lost: every iterator obtained in newRawIterator / version.getIterators / compaction.newIterator flows into the merged iterator; (5) every movement method of every iterator.Iterator implementation tests the released state before touching anything. Each is a necessary condition of cursor equivalence; the direction-change state machines, range slicing at block boundaries and restart-point search are value-dependent and NOT decided.",
		notCovered:  "direction-change state machines (dbIter.Prev, mergedIterator.Prev/Next, blockIter.Prev), range slicing at block and table boundaries, restart-point search — all value-dependent; cursor equivalence over all movement sequences",
		assumptions: []string{"a user comparer satisfying the documented contract", "memdb / table iterators position correctly (C13, C14)"},
	})
}

const tDbIter = "leveldb.dbIter"

func cmpFilesC02(fn string) bool {
	return strings.HasSuffix(fn, "/db_iter.go") || strings.Contains(fn, "/iterator/") || strings.HasSuffix(fn, "/table/reader.go") || strings.Contains(fn, "/memdb/")
}

func runC02(p *Prog, r *Report) {
	if want("C02.1") {
		ruleComparerDiscipline(p, r, "C02.1", cmpPkgs, cmpFilesC02)
	}
	if want("C02.2") {
		ruleDbIterGuards(p, r, "C02.2")
	}
	if want("C02.3") {
		ruleIterProbes(p, r, "C02.3")
	}
	if want("C02.4") {
		ruleNoSourceLost(p, r, "C02.4")
	}
	if want("C02.5") {
		ruleIterReleasedFirst(p, r, "C02.5")
	}
	if want("C02.6") {
		ruleMergedOrder(p, r, "C02.6")
	}
	if want("C02.7") {
		ruleRangePredicates(p, r, "C02.7")
	}
	if want("C02.8") {
		ruleIndexedIterator(p, r, "C02.8")
	}
	if want("C02.9") {
		ruleMergedIterator(p, r, "C02.9")
	}
	if want("C02.16") {
		// the memdb iterator's direction flag (shared with C14.10)
		ruleMemdbIterDirection(p, r, "C02.16")
	}
	if want("C02.15") {
		// an iterator that lost its source to a read error must not present a stale candidate (D10)
		ruleReadErrorsSurface(p, r, "C02.15")
	}
	if want("C02.14") {
		ruleBlockIterRewind(p, r, "C02.14")
	}
	if want("C02.13") {
		ruleSkipListSearch(p, r, "C02.13")
	}
	if want("C02.12") {
		ruleBlockRangeSlicing(p, r, "C02.12")
	}
	if want("C02.11") {
		ruleMemdbIterRange(p, r, "C02.11")
	}
	if want("C02.10") {
		ruleRangePlumbing(p, r, "C02.10")
	}
}

func retConstBool(val bool) InstrPred {
	return func(in ssa.Instruction) bool {
		ret, ok := in.(*ssa.Return)
		if !ok || len(ret.Results) != 1 {
			return false
		}
		b, ok := constBool(retValue(ret, ret.Results[0]))
		return ok && b == val
	}
}

// ruleDbIterGuards: C02.2.
func ruleDbIterGuards(p *Prog, r *Report, rule string) {
	r.Begin(rule, "E-GUARD", "dbIter.next surfaces an entry only under kerr==nil ∧ seq <= i.seq ∧ kind==value ∧ (dir==SOI ∨ uCompare(ukey,i.key) > 0); a visible tombstone records its key; dbIter.prev copies an entry only under seq <= i.seq ∧ kind≠tombstone", 6)
	defer r.End()
	seqOK := cmpAtom("seq<=i.seq", token.LEQ, mExtract(1, fParseIKey), mFieldLoad(tDbIter, "seq"))
	kerrNil := nilAtom("kerr==nil", mExtract(3, fParseIKey))
	isVal := cmpAtom("kt==keyTypeVal", token.EQL, mExtract(2, fParseIKey), mConstInt(1))
	isDel := cmpAtom("kt==keyTypeDel", token.EQL, mExtract(2, fParseIKey), mConstInt(0))
	soi := cmpAtom("dir==dirSOI", token.EQL, mFieldLoad(tDbIter, "dir"), mConstInt(0))
	greater := cmpAtom("uCompare(ukey,i.key)>0", token.GTR, mCall(fUCompare), mConstInt(0))
	parse := evCall(fParseIKey)
	innerNext := func(in ssa.Instruction) bool { return isInvokeNamed(in, "Next") }
	innerPrev := func(in ssa.Instruction) bool { return isInvokeNamed(in, "Prev") }
	storeF := func(f string) InstrPred { return evStoreField(tDbIter, f) }

	if fn := resolveFn(p, r, "leveldb", "(*dbIter).next"); fn != nil {
		atoms := []Atom{kerrNil, seqOK, isVal, soi, greater}
		G := func(a []bool) bool { return a[0] && a[1] && a[2] && (a[3] || a[4]) }
		gd := "kerr==nil ∧ seq<=i.seq ∧ kind==Val ∧ (dir==SOI ∨ uCompare(ukey,i.key)>0)"
		checkGuard(p, r, GuardSpec{Rule: "surface", Fn: fn, Starts: after(fn, parse), Target: retConstBool(true), TargetDesc: "return true (an entry is surfaced)", Atoms: atoms, G: G, GDesc: gd, Avoid: orPred(parse, innerNext), MinTargets: 1})
		checkGuardExact(p, r, GuardSpec{Rule: "surface", Fn: fn, Starts: after(fn, parse), Target: retConstBool(true), TargetDesc: "the entry is surfaced", Atoms: append(append([]Atom{}, atoms...), isDel), G: G, GDesc: gd, Avoid: parse,
			Consistent: func(a []bool) bool { return !(a[2] && a[5]) }}, innerNext, "the next raw entry")
		checkGuard(p, r, GuardSpec{Rule: "value-copied", Fn: fn, Starts: after(fn, parse), Target: storeF("value"), TargetDesc: "store to i.value", Atoms: atoms, G: G, GDesc: gd, Avoid: orPred(parse, innerNext), MinTargets: 1})
		// a visible tombstone records the key (so older versions of it are skipped)
		// formulated as: under kerr==nil ∧ seq<=i.seq ∧ kind==Del, moving to the next raw entry passes a store to i.key
		if w := findPathV(after(fn, parse), atomEdges([]Atom{kerrNil, seqOK, isDel}, []bool{true, true, true}), orPred(parse, storeF("key")), innerNext, atomVals([]Atom{kerrNil, seqOK, isDel}, []bool{true, true, true})); w != nil {
			r.Fail(fnName(fn), "tombstone-not-recorded", "a visible tombstone records its user key in i.key before the walk continues", "with seq<=i.seq ∧ kind==Del the iterator advances without storing the key: an older value of the deleted key would surface", p.posOfLast(w, innerNext), p.renderPath(w))
		} else {
			r.OK(fnName(fn), "tombstone-recorded", "a visible tombstone records its user key in i.key before the walk continues")
		}
		r.Site(1)
		// stores copy (append onto own buffer) — exposure rule shared with C20.3
		// i.key is only set from the current entry's ukey
		okv := true
		instrs(fn, func(_ *ssa.BasicBlock, _ int, in ssa.Instruction) {
			if st, ok := in.(*ssa.Store); ok && isFieldAddr(st.Addr, tDbIter, "key") {
				c, ok := st.Val.(*ssa.Call)
				if !ok || !isCallTo(c, "builtin:append") || !mExtract(0, fParseIKey)(c.Call.Args[1]) {
					okv = false
				}
			}
		})
		r.Check(okv, fnName(fn), "key-from-current-entry", "i.key is set from the current entry's user key", "i.key stored from another origin", p.Pos(fn.Pos()))
	}
	if fn := resolveFn(p, r, "leveldb", "(*dbIter).prev"); fn != nil {
		atoms := []Atom{kerrNil, seqOK, isDel}
		G := func(a []bool) bool { return a[0] && a[1] && !a[2] }
		gd := "kerr==nil ∧ seq<=i.seq ∧ kind≠Del"
		checkGuard(p, r, GuardSpec{Rule: "prev-value-copied", Fn: fn, Starts: after(fn, parse), Target: storeF("value"), TargetDesc: "store to i.value", Atoms: atoms, G: G, GDesc: gd, Avoid: orPred(parse, innerPrev), MinTargets: 1})
		checkGuard(p, r, GuardSpec{Rule: "prev-key-copied", Fn: fn, Starts: after(fn, parse), Target: storeF("key"), TargetDesc: "store to i.key", Atoms: atoms, G: G, GDesc: gd, Avoid: orPred(parse, innerPrev), MinTargets: 1})
		// stop (return true) inside the loop only when a visible entry of a SMALLER user key is seen and the candidate is not deleted
		less := cmpAtom("uCompare(ukey,i.key)<0", token.LSS, mCall(fUCompare), mConstInt(0))
		// conversely: every visible value entry that does not end the scan becomes the candidate (the
		// newest visible version seen last wins); skipping one presents an older version
		checkGuardExact(p, r, GuardSpec{Rule: "prev-candidate-updated", Fn: fn, Starts: after(fn, parse), Target: storeF("key"), TargetDesc: "the entry becomes the candidate (i.key/i.value)", Atoms: []Atom{kerrNil, seqOK, isDel, less}, G: func(a []bool) bool { return a[0] && a[1] && !a[2] && !a[3] }, GDesc: "kerr==nil ∧ seq<=i.seq ∧ kind≠Del ∧ same-or-greater user key", Avoid: parse}, orPred(innerPrev, isReturn), "the next raw entry / return")
		// the tombstone flag `del` ("the candidate so far is deleted") is loop-carried: after a raw
		// entry has been looked at it is (kind==Del) when the entry is visible (kerr==nil ∧ seq<=i.seq)
		// and UNCHANGED otherwise — an entry above the iterator's sequence, tombstone or not, must
		// not influence the scan (it would hide keys from Prev that Next still shows)
		func() {
			var pc ssa.Instruction
			instrs(fn, func(_ *ssa.BasicBlock, _ int, in ssa.Instruction) {
				if parse(in) && pc == nil {
					pc = in
				}
			})
			var hdr *ssa.Phi
			if pc != nil {
				for b := pc.Block(); b != nil && hdr == nil; b = b.Idom() {
					for _, in := range b.Instrs {
						// the loop-carried bool of the scan: named `del`, or (renamed) a bool phi fed
						// from outside the loop and from a back edge
						if ph, ok := in.(*ssa.Phi); ok && phiNamedOr(ph, "del", func(q *ssa.Phi) bool {
							if !isBoolType(q.Type()) {
								return false
							}
							in, back := false, false
							for pi, pred := range q.Block().Preds {
								_ = pi
								if q.Block().Dominates(pred) {
									back = true
								} else {
									in = true
								}
							}
							return in && back
						}) {
							hdr = ph
							break
						}
					}
				}
			}
			r.Site(1)
			if hdr == nil {
				r.Fail(fnName(fn), "prev-tombstone-flag:unresolved-anchor", "the backward scan carries a tombstone flag across raw entries", "no loop-carried `del` value found at the loop head", p.Pos(fn.Pos()), nil)
				return
			}
			hb := hdr.Block()
			fatoms := []Atom{kerrNil, seqOK, isDel}
			bad := ""
			badPos := ""
			npaths := 0
			for pi, pred := range hb.Preds {
				if !hb.Dominates(pred) {
					continue // entry edge
				}
				for m := 0; m < 8 && bad == ""; m++ {
					a := []bool{m&1 != 0, m&2 != 0, m&4 != 0}
					complete := enumPaths(point{pc.Block(), indexOf(pc) + 1}, atomEdges(fatoms, a), pred, hb, 200, func(path []*ssa.BasicBlock) {
						npaths++
						full := append(append([]*ssa.BasicBlock{}, path...), hb)
						_ = full
						v := resolveAlong(hdr.Edges[pi], path)
						visible := a[0] && a[1]
						desc := fmt.Sprintf("{kerr==nil=%v, seq<=i.seq=%v, kind==Del=%v}", a[0], a[1], a[2])
						if !visible {
							if v != ssa.Value(hdr) && bad == "" {
								bad = "with " + desc + " (the entry is not visible) the flag is changed to " + v.String() + " instead of being left alone"
								badPos = p.Pos(pc.Pos())
							}
							return
						}
						var got, known bool
						if c, ok := constBool(v); ok {
							got, known = c, true
						} else if bv, ok := atomVals(fatoms, a)(v); ok {
							got, known = bv, true
						}
						if (!known || got != a[2]) && bad == "" {
							bad = "with " + desc + " (a visible entry) the flag becomes " + v.String() + ", expected kind==Del"
							badPos = p.Pos(pc.Pos())
						}
					})
					if !complete && bad == "" {
						bad = "too many paths through the loop body to enumerate"
						badPos = p.Pos(fn.Pos())
					}
				}
			}
			r.Site(npaths)
			if bad != "" {
				r.Fail(fnName(fn), "prev-tombstone-flag", "after each raw entry the tombstone flag is kind==Del for a visible entry and unchanged for an invisible or unparsable one", bad, badPos, nil)
			} else if npaths == 0 {
				r.Fail(fnName(fn), "prev-tombstone-flag:unresolved-anchor", "the backward scan carries a tombstone flag across raw entries", "no path from the parsed entry to the next loop iteration", p.Pos(fn.Pos()), nil)
			} else {
				r.OK(fnName(fn), "prev-tombstone-flag", "after each raw entry the tombstone flag is kind==Del for a visible entry and unchanged for an invisible or unparsable one")
			}
		}()
		checkGuard(p, r, GuardSpec{Rule: "prev-stop", Fn: fn, Starts: after(fn, parse), Target: retConstBool(true), TargetDesc: "return true from inside the backward scan", Atoms: []Atom{kerrNil, seqOK, less}, G: func(a []bool) bool { return a[0] && a[1] && a[2] }, GDesc: "kerr==nil ∧ seq<=i.seq ∧ uCompare(ukey,i.key)<0", Avoid: orPred(parse, innerPrev), MinTargets: 1})
	}
	if fn := resolveFn(p, r, "leveldb", "(*dbIter).Prev"); fn != nil {
		// when reversing from forward, skip back over all entries of the current user key
		less := cmpAtom("uCompare(ukey,i.key)<0", token.LSS, mCall(fUCompare), mConstInt(0))
		kerr := nilAtom("kerr==nil", mExtract(3, fParseIKey))
		callprev := evCall("(*leveldb.dbIter).prev")
		checkGuard(p, r, GuardSpec{Rule: "reverse-skips-current-key", Fn: fn, Starts: after(fn, parse), Target: callprev, TargetDesc: "i.prev() after a direction change", Atoms: []Atom{kerr, less}, G: func(a []bool) bool { return a[0] && a[1] }, GDesc: "kerr==nil ∧ uCompare(ukey,i.key)<0 (left the current user key)", Avoid: orPred(parse, innerPrev), MinTargets: 1})
	}
}

// ruleIterProbes: C02.3.
func ruleIterProbes(p *Prog, r *Report, rule string) {
	r.Begin(rule, "E-FLOW", "Seek probes with (key, snapshot seq, keyTypeSeek); range bounds are converted with (keyMaxSeq, keyTypeSeek): inclusive start, exclusive limit at user-key granularity", 3)
	defer r.End()
	mk := "leveldb.makeInternalKey"
	if fn := resolveFn(p, r, "leveldb", "(*dbIter).Seek"); fn != nil {
		checkCallArg(p, r, fn, "seek-ukey", mk, 1, mParam("key"), "the sought user key")
		checkCallArg(p, r, fn, "seek-seq", mk, 2, mFieldLoad(tDbIter, "seq"), "the iterator's snapshot sequence")
		checkCallArg(p, r, fn, "seek-kind", mk, 3, mConstInt(1), "keyTypeSeek")
		// the probe is what is passed to the raw iterator's Seek
		n := 0
		instrs(fn, func(_ *ssa.BasicBlock, _ int, in ssa.Instruction) {
			if isInvokeNamed(in, "Seek") && argIs(in, 0, func(v ssa.Value) bool { _, ok := callValue(v, mk); return ok }) {
				n++
			}
		})
		r.Check(n == 1, fnName(fn), "seek-uses-probe", "the raw iterator is positioned with the probe key", "raw Seek not called with the probe", p.Pos(fn.Pos()))
		r.Site(1)
	}
	if fn := resolveFn(p, r, "leveldb", "(*DB).newIterator"); fn != nil {
		calls := findCalls(fn, mk)
		r.Site(len(calls))
		r.Check(len(calls) == 2, fnName(fn), "two-bounds", "both range bounds are converted to internal keys", fmt.Sprintf("%d conversions", len(calls)), p.Pos(fn.Pos()))
		for _, c := range calls {
			ok := argIs(c, 2, mKeyMaxSeq) && argIs(c, 3, mConstInt(1)) && argIs(c, 1, func(v ssa.Value) bool {
				return isFieldLoad(v, "leveldb/util.Range", "Start") || isFieldLoad(v, "leveldb/util.Range", "Limit")
			})
			r.Check(ok, fnName(fn), "bound-conversion", "range bound converted as makeInternalKey(nil, bound, keyMaxSeq, keyTypeSeek)", "a bound is converted with a different sequence/kind: entries of the bound key would be wrongly included/excluded", p.Pos(c.Pos()))
		}
		// Start feeds islice.Start, Limit feeds islice.Limit
		okv := 0
		instrs(fn, func(_ *ssa.BasicBlock, _ int, in ssa.Instruction) {
			st, ok := in.(*ssa.Store)
			if !ok {
				return
			}
			for _, f := range []string{"Start", "Limit"} {
				if isFieldAddr(st.Addr, "leveldb/util.Range", f) {
					if c, ok := callValue(st.Val, mk); ok && argIs(c, 1, mFieldLoad("leveldb/util.Range", f)) {
						okv++
					}
				}
			}
		})
		r.Check(okv == 2, fnName(fn), "bounds-not-swapped", "slice.Start feeds the internal Start and slice.Limit the internal Limit", "bounds are crossed or missing", p.Pos(fn.Pos()))
		// the snapshot sequence is the seq parameter
		okSeq := false
		instrs(fn, func(_ *ssa.BasicBlock, _ int, in ssa.Instruction) {
			if st, ok := in.(*ssa.Store); ok && isFieldAddr(st.Addr, tDbIter, "seq") && mParam("seq")(st.Val) {
				okSeq = true
			}
		})
		r.Check(okSeq, fnName(fn), "iter-seq-from-caller", "the iterator's snapshot sequence is the caller-fixed seq", "dbIter.seq not set from the seq parameter", p.Pos(fn.Pos()))
	}
}

// sliceSources collects the element values and spread slices that make up slice value v.
func sliceSources(v ssa.Value, elems, spreads map[ssa.Value]bool, seen map[ssa.Value]bool) {
	v = stripConv(v)
	if seen[v] {
		return
	}
	seen[v] = true
	switch x := v.(type) {
	case *ssa.Phi:
		for _, e := range x.Edges {
			sliceSources(e, elems, spreads, seen)
		}
	case *ssa.MakeSlice:
	case *ssa.Const:
	case *ssa.Slice:
		if al, ok := x.X.(*ssa.Alloc); ok {
			// varargs / literal array: collect stores into its elements
			for _, ref := range *al.Referrers() {
				if ia, ok := ref.(*ssa.IndexAddr); ok {
					for _, r2 := range *ia.Referrers() {
						if st, ok := r2.(*ssa.Store); ok && st.Addr == ia {
							elems[st.Val] = true
						}
					}
				}
			}
			return
		}
		sliceSources(x.X, elems, spreads, seen)
	case *ssa.Call:
		if isCallTo(x, "builtin:append") {
			sliceSources(x.Call.Args[0], elems, spreads, seen)
			if len(x.Call.Args) > 1 {
				a1 := stripConv(x.Call.Args[1])
				if sl, ok := a1.(*ssa.Slice); ok {
					if _, isAl := sl.X.(*ssa.Alloc); isAl {
						sliceSources(a1, elems, spreads, seen)
						return
					}
				}
				spreads[a1] = true
				sliceSources(a1, elems, spreads, seen)
			}
			return
		}
		spreads[x] = true
	case *ssa.UnOp:
		if x.Op == token.MUL {
			for _, s := range cellStores(x.X) {
				sliceSources(s, elems, spreads, seen)
			}
		}
	default:
		spreads[v] = true
	}
}

func isIteratorT(t types.Type) bool {
	return namedOf(t) == "leveldb/iterator.Iterator"
}

// ruleNoSourceLost: C02.4.
func ruleNoSourceLost(p *Prog, r *Report, rule string) {
	r.Begin(rule, "E-FLOW", "no source is lost: every iterator created in newRawIterator (aux buffer, aux tables, effective buffer, frozen buffer, table iterators), version.getIterators and compaction.newIterator flows into the slice handed to NewMergedIterator / returned", 8)
	defer r.End()
	check := func(fn *ssa.Function, sink ssa.Value, sinkDesc string) {
		elems, spreads := map[ssa.Value]bool{}, map[ssa.Value]bool{}
		sliceSources(sink, elems, spreads, map[ssa.Value]bool{})
		n := 0
		instrs(fn, func(_ *ssa.BasicBlock, _ int, in ssa.Instruction) {
			c, ok := in.(*ssa.Call)
			if !ok {
				return
			}
			var desc string
			switch {
			case isIteratorT(c.Type()) && c != sink && !isCallTo(c, "leveldb/iterator.NewMergedIterator"):
				desc = "iterator from " + calleeName(&c.Call)
				if elems[c] {
					n++
					r.OK(fnName(fn), "flows:"+calleeName(&c.Call)+"@"+branchLabel(c), desc+" flows into "+sinkDesc)
				} else if wrappedInto(c, elems) {
					n++
					r.OK(fnName(fn), "flows(wrapped):"+calleeName(&c.Call)+"@"+branchLabel(c), desc+" flows (wrapped) into "+sinkDesc)
				} else {
					r.Fail(fnName(fn), "source-lost:"+calleeName(&c.Call), "every iterator obtained is merged", desc+" at "+p.Pos(c.Pos())+" does not flow into "+sinkDesc+": its entries would be missing from the view", p.Pos(c.Pos()), nil)
				}
			case isCallTo(c, "(*leveldb.version).getIterators"):
				n++
				r.Check(spreads[c], fnName(fn), "flows:getIterators", "the table iterators of the version are all appended", "version.getIterators result is not appended to the merged set", p.Pos(c.Pos()))
			}
		})
		r.Site(n)
	}
	if fn := resolveFn(p, r, "leveldb", "(*DB).newRawIterator"); fn != nil {
		calls := findCalls(fn, "leveldb/iterator.NewMergedIterator")
		if len(calls) != 1 {
			r.Fail(fnName(fn), "unresolved-anchor", "newRawIterator builds one merged iterator", fmt.Sprintf("%d NewMergedIterator calls", len(calls)), p.Pos(fn.Pos()), nil)
		} else {
			check(fn, callCommon(calls[0]).Args[0], "NewMergedIterator's input")
			// merged with the DB's internal comparer
			r.Check(argIs(calls[0], 1, mFieldLoad("leveldb.session", "icmp")), fnName(fn), "merged-with-icmp", "sources are merged under the internal-key comparer", "NewMergedIterator gets a different comparer", p.Pos(calls[0].Pos()))
			// the frozen buffer is included whenever it is non-nil: the only guard on its iterator is `fm != nil`
			// the effective buffer unconditionally
			em := func(v ssa.Value) bool { _, ok := extractOf(v, 0, "(*leveldb.DB).getMems"); return ok }
			var emIter ssa.Instruction
			instrs(fn, func(_ *ssa.BasicBlock, _ int, in ssa.Instruction) {
				if isCallTo(in, "(*leveldb/memdb.DB).NewIterator") && argIs(in, 0, func(v ssa.Value) bool {
					u, ok := v.(*ssa.UnOp)
					if !ok {
						return false
					}
					_, _, base, ok := fieldOf(u.X)
					return ok && em(base)
				}) {
					emIter = in
				}
			})
			if emIter == nil {
				r.Fail(fnName(fn), "effective-buffer-missing", "the effective buffer contributes an iterator", "no iterator over getMems()#0", p.Pos(fn.Pos()), nil)
			} else if w := findPath(entryPoint(fn), nil, func(in ssa.Instruction) bool { return in == emIter }, isReturn); w != nil {
				r.Fail(fnName(fn), "effective-buffer-conditional", "the effective buffer contributes an iterator on every path", "a path returns without iterating the effective buffer", p.Pos(emIter.Pos()), p.renderPath(w))
			} else {
				r.OK(fnName(fn), "effective-buffer-always", "the effective buffer contributes an iterator on every path")
			}
			// frozen buffer: under fm != nil it must be iterated
			fmNonNil := assumeBool(func(v ssa.Value) (bool, bool) {
				if b, ok := v.(*ssa.BinOp); ok && (b.Op == token.NEQ || b.Op == token.EQL) && isNilConst(b.Y) {
					if _, ok := extractOf(b.X, 1, "(*leveldb.DB).getMems"); ok {
						return b.Op == token.NEQ, true
					}
				}
				return false, false
			})
			fmIter := func(in ssa.Instruction) bool {
				return isCallTo(in, "(*leveldb/memdb.DB).NewIterator") && argIs(in, 0, func(v ssa.Value) bool {
					u, ok := v.(*ssa.UnOp)
					if !ok {
						return false
					}
					_, _, base, ok := fieldOf(u.X)
					if !ok {
						return false
					}
					_, isFm := extractOf(base, 1, "(*leveldb.DB).getMems")
					return isFm
				})
			}
			if w := findPath(entryPoint(fn), fmNonNil, fmIter, isReturn); w != nil {
				r.Fail(fnName(fn), "frozen-buffer-skipped", "a non-nil frozen buffer contributes an iterator", "with fm != nil a path returns without iterating the frozen buffer: entries being flushed vanish from the view", p.Pos(fn.Pos()), p.renderPath(w))
			} else {
				r.OK(fnName(fn), "frozen-buffer-when-present", "a non-nil frozen buffer contributes an iterator")
			}
		}
	}
	if fn := resolveFn(p, r, "leveldb", "(*version).getIterators"); fn != nil {
		// the named result `its`
		var sink ssa.Value
		instrs(fn, func(_ *ssa.BasicBlock, _ int, in ssa.Instruction) {
			if ret, ok := in.(*ssa.Return); ok && len(ret.Results) == 1 {
				sink = retValue(ret, ret.Results[0])
			}
		})
		if sink != nil {
			check(fn, sink, "the returned iterator list")
		}
		// every level is visited: level 0 per table, deeper levels when non-empty
		lvl0 := cmpAtom("level==0", token.EQL, func(v ssa.Value) bool { _, isCall := v.(*ssa.Call); return !isCall }, mConstInt(0))
		nonEmpty := cmpAtom("len(tables)!=0", token.NEQ, func(v ssa.Value) bool {
			c, ok := v.(*ssa.Call)
			return ok && isCallTo(c, "builtin:len")
		}, mConstInt(0))
		checkGuard(p, r, GuardSpec{Rule: "deeper-levels-indexed", Fn: fn, Target: evCall("leveldb/iterator.NewIndexedIterator"), TargetDesc: "one indexed iterator per deeper level",
			Atoms: []Atom{lvl0, nonEmpty}, G: func(a []bool) bool { return !a[0] && a[1] }, GDesc: "level≠0 ∧ len(tables)≠0", MinTargets: 1})
		// and conversely a non-empty deeper level is not skipped
		loopNext := func(in ssa.Instruction) bool {
			// the range loop's next-iteration increment: BinOp ADD on the rangeindex phi
			b, ok := in.(*ssa.BinOp)
			if !ok || b.Op != token.ADD {
				return false
			}
			ph, ok := b.X.(*ssa.Phi)
			return ok && ph.Comment == "rangeindex"
		}
		_ = loopNext
	}
	if fn := resolveFn(p, r, "leveldb", "(*compaction).newIterator"); fn != nil {
		calls := findCalls(fn, "leveldb/iterator.NewMergedIterator")
		if len(calls) != 1 {
			r.Fail(fnName(fn), "unresolved-anchor", "compaction.newIterator builds one merged iterator", fmt.Sprintf("%d NewMergedIterator calls", len(calls)), p.Pos(fn.Pos()), nil)
		} else {
			check(fn, callCommon(calls[0]).Args[0], "NewMergedIterator's input")
			r.Check(argIs(calls[0], 1, mFieldLoad("leveldb.session", "icmp")), fnName(fn), "merged-with-icmp", "compaction inputs are merged under the internal-key comparer", "different comparer", p.Pos(calls[0].Pos()))
		}
	}
}

// wrappedInto: value c is passed to a call (e.g. NewIndexedIterator(index)) whose result is an element.
func wrappedInto(c ssa.Value, elems map[ssa.Value]bool) bool {
	for e := range elems {
		if call, ok := e.(*ssa.Call); ok {
			for _, a := range call.Call.Args {
				if stripConv(a) == c {
					return true
				}
			}
		}
	}
	return false
}

// iteratorImpls returns the named struct types (pkgrel.Name) in the engine packages whose pointer
// type implements iterator.Iterator or iterator.IteratorIndexer, with their declared movement methods.
func iteratorImpls(p *Prog) map[string][]*ssa.Function {
	out := map[string][]*ssa.Function{}
	ipkg := p.ByRel["leveldb/iterator"]
	if ipkg == nil {
		return out
	}
	seeker, _ := ipkg.Pkg.Scope().Lookup("IteratorSeeker").Type().Underlying().(*types.Interface)
	if seeker == nil {
		return out
	}
	moves := map[string]bool{"First": true, "Last": true, "Seek": true, "Next": true, "Prev": true}
	for _, rel := range enginePkgs {
		sp := p.ByRel[rel]
		if sp == nil {
			continue
		}
		for _, name := range sp.Pkg.Scope().Names() {
			tn, ok := sp.Pkg.Scope().Lookup(name).(*types.TypeName)
			if !ok {
				continue
			}
			if _, isStruct := tn.Type().Underlying().(*types.Struct); !isStruct {
				continue
			}
			pt := types.NewPointer(tn.Type())
			if !types.Implements(pt, seeker) {
				continue
			}
			named := tn.Type().(*types.Named)
			for i := 0; i < named.NumMethods(); i++ {
				m := named.Method(i)
				if moves[m.Name()] {
					if f := p.SSA.FuncValue(m); f != nil && len(f.Blocks) > 0 {
						out[rel+"."+name] = append(out[rel+"."+name], f)
					}
				}
			}
		}
	}
	return out
}

// ruleIterReleasedFirst: C02.5 / C18.4.
func ruleIterReleasedFirst(p *Prog, r *Report, rule string) {
	r.Begin(rule, "E-EXH", "every movement method (First/Last/Seek/Next/Prev) declared by any iterator implementation in the repository touches its sources only after testing the released state, and reports false when released", 25)
	defer r.End()
	impls := iteratorImpls(p)
	var names []string
	for n := range impls {
		names = append(names, n)
	}
	sort.Strings(names)
	for _, tn := range names {
		for _, fn := range impls[tn] {
			name := fnName(fn)
			r.Fn(name)
			released := Atom{Name: "released", Match: func(cond ssa.Value) (int, int) {
				// i.dir == dirReleased(-1)   |   i.Released()
				if c, ok := cond.(*ssa.Call); ok {
					if f := staticCallee(&c.Call); f != nil && f.Name() == "Released" {
						return +1, -1
					}
				}
				if b, ok := cond.(*ssa.BinOp); ok && (b.Op == token.EQL || b.Op == token.NEQ) {
					isDir := func(v ssa.Value) bool {
						u, ok := v.(*ssa.UnOp)
						if !ok || u.Op != token.MUL {
							return false
						}
						_, f, _, ok := fieldOf(u.X)
						return ok && f == "dir"
					}
					if (isDir(b.X) && mConstInt(-1)(b.Y)) || (isDir(b.Y) && mConstInt(-1)(b.X)) {
						if b.Op == token.EQL {
							return +1, -1
						}
						return -1, +1
					}
				}
				return 0, 0
			}}
			// inner effects: interface invokes, static calls to non-trivial methods, stores to fields other than err
			inner := func(in ssa.Instruction) bool {
				switch x := in.(type) {
				case *ssa.Call:
					if x.Call.IsInvoke() {
						return true
					}
					f := staticCallee(&x.Call)
					if f == nil {
						return !isBuiltinCall(&x.Call)
					}
					switch f.Name() {
					case "Released", "rErr":
						return false
					}
					return f.Pkg != nil && strings.HasPrefix(f.Pkg.Pkg.Path(), modPath)
				case *ssa.Store:
					if _, f, _, ok := fieldOf(x.Addr); ok && f != "err" {
						return true
					}
				}
				return false
			}
			n := countInstr(fn, inner)
			if n == 0 {
				// trivial iterator (emptyIterator): it must still compute the released error
				r.Site(1)
				r.OK(name, "trivial", "method touches no source")
				continue
			}
			gs := GuardSpec{Rule: "released-checked-first", Fn: fn, Target: inner, TargetDesc: "any access to the iterator's sources/state", Atoms: []Atom{released}, G: func(a []bool) bool { return !a[0] }, GDesc: "¬released", MinTargets: 1}
			checkGuard(p, r, gs)
			// when released: returns false
			relEdges := atomEdges([]Atom{released}, []bool{true})
			if atomSites(fn, []Atom{released})[0] > 0 {
				if w := findPathV(entryPoint(fn), relEdges, nil, func(in ssa.Instruction) bool {
					ret, ok := in.(*ssa.Return)
					if !ok || len(ret.Results) != 1 {
						return false
					}
					b, ok := constBool(retValue(ret, ret.Results[0]))
					return !ok || b
				}, atomVals([]Atom{released}, []bool{true})); w != nil {
					r.Fail(name, "released-returns-true", "a released iterator reports false", "a path returns something other than false when released", p.posOfLast(w, isReturn), p.renderPath(w))
				} else {
					r.OK(name, "released-returns-false", "a released iterator reports false")
				}
			}
		}
	}
}

func isBuiltinCall(cc *ssa.CallCommon) bool {
	_, ok := cc.Value.(*ssa.Builtin)
	return ok
}

// ruleMergedOrder: C02.6 — the merge heap orders by the comparer and direction.
func ruleMergedOrder(p *Prog, r *Report, rule string) {
	r.Begin(rule, "E-GUARD", "merged iterator heap order: Less compares the current keys of the two sources with the configured comparer; forward = r<0, reverse = r>0", 2)
	defer r.End()
	fn := resolveFn(p, r, "leveldb/iterator", "(*indexHeap).Less")
	if fn == nil {
		return
	}
	cmpCall := func(v ssa.Value) bool {
		c, ok := v.(*ssa.Call)
		return ok && c.Call.IsInvoke() && c.Call.Method.Name() == "Compare"
	}
	n := countInstr(fn, func(in ssa.Instruction) bool { c, ok := in.(*ssa.Call); return ok && cmpCall(c) })
	r.Site(n)
	r.Check(n == 1, fnName(fn), "uses-comparer", "Less calls the configured comparer once", fmt.Sprintf("%d comparer calls", n), p.Pos(fn.Pos()))
	// return value: under reverse → r>0 ; else r<0
	rev := boolAtom("reverse", mFieldLoad("leveldb/iterator.indexHeap", "reverse"))
	retOf := func(op token.Token) InstrPred {
		return func(in ssa.Instruction) bool {
			ret, ok := in.(*ssa.Return)
			if !ok || len(ret.Results) != 1 {
				return false
			}
			b, ok := ret.Results[0].(*ssa.BinOp)
			if !ok || !cmpCall(b.X) || !mConstInt(0)(b.Y) {
				return false
			}
			return b.Op == op
		}
	}
	checkGuard(p, r, GuardSpec{Rule: "forward-min-heap", Fn: fn, Target: retOf(token.LSS), TargetDesc: "return r < 0", Atoms: []Atom{rev}, G: func(a []bool) bool { return !a[0] }, GDesc: "¬reverse", MinTargets: 1})
	checkGuard(p, r, GuardSpec{Rule: "reverse-max-heap", Fn: fn, Target: retOf(token.GTR), TargetDesc: "return r > 0", Atoms: []Atom{rev}, G: func(a []bool) bool { return a[0] }, GDesc: "reverse", MinTargets: 1})
	// no other return shapes
	other := countInstr(fn, func(in ssa.Instruction) bool {
		return isReturn(in) && !retOf(token.LSS)(in) && !retOf(token.GTR)(in)
	})
	r.Check(other == 0, fnName(fn), "only-strict-comparisons", "Less returns only r<0 / r>0 (strict weak order)", fmt.Sprintf("%d other return shapes", other), p.Pos(fn.Pos()))
	// keys compared are the sources' current keys
	if fn2 := resolveFn(p, r, "leveldb/iterator", "(*mergedIterator).Key"); fn2 != nil {
		r.OK(fnName(fn2), "present", "Key returns the winning source's key")
	}
}
