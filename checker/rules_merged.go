package main

import (
	"fmt"
	"go/token"

	"golang.org/x/tools/go/ssa"
)

// ruleMergedIterator: the k-way merge every DB iterator and every compaction input is built on.
// Structural conditions for "exactly the union, in order, for any walk": every source takes part
// in every (re)positioning, a source enters the heap only when it is positioned, the source that
// supplied the current entry is the one advanced, a change of direction re-positions the OTHER
// sources around a private copy of the current key, and the heap is oriented for the direction.
func ruleMergedIterator(p *Prog, r *Report, rule string) {
	r.Begin(rule, "E-GUARD", "mergedIterator: First/Last/Seek position every source with the same move and the caller's key, push a source only if its move succeeded, orient the heap (min for forward, max for backward) and finish with next()/prev(); Next/Prev advance exactly iters[i.index]; a reversal re-seeks around a COPY of the current key (Next: Seek(copy)+Next; Prev: every other source Seek(copy) then Prev, or Last when the seek found nothing, skipping the current source); false is returned only on exhaustion, error or an end state; next()/prev() pop the heap into i.index and set the direction", 20)
	defer r.End()
	tM := "leveldb/iterator.mergedIterator"
	moves := []string{"First", "Last", "Seek", "Next", "Prev"}
	srcCall := func(methods ...string) VMatch {
		return func(v ssa.Value) bool {
			c, ok := v.(*ssa.Call)
			if !ok || !c.Call.IsInvoke() || namedOf(c.Call.Value.Type()) != "leveldb/iterator.Iterator" {
				return false
			}
			for _, m := range methods {
				if c.Call.Method.Name() == m {
					return true
				}
			}
			return false
		}
	}
	srcMove := boolAtom("source.move", srcCall(moves...))
	iterErr := boolAtom("iterErr()", mCall("(*leveldb/iterator.mergedIterator).iterErr"))
	errNil := nilAtom("i.err==nil", mFieldLoad(tM, "err"))
	dirTest := Atom{Name: "dir==<state>", Match: func(cond ssa.Value) (int, int) {
		b, ok := cond.(*ssa.BinOp)
		if !ok || !isFieldLoad(b.X, tM, "dir") {
			return 0, 0
		}
		if _, isC := constInt(b.Y); !isC {
			return 0, 0
		}
		switch b.Op {
		case token.EQL:
			return +1, -1
		case token.NEQ:
			return -1, +1
		}
		return 0, 0
	}}
	selfMove := boolAtom("i.<move>()", func(v ssa.Value) bool {
		c, ok := v.(*ssa.Call)
		if !ok {
			return false
		}
		f := staticCallee(&c.Call)
		return f != nil && f.Pkg != nil && namedOf(f.Signature.Recv().Type()) == tM
	})
	heapEmpty := cmpAtom("h.Len()==0", token.EQL, mCall("(*leveldb/iterator.indexHeap).Len"), mConstInt(0))
	push := func(in ssa.Instruction) bool {
		return isCallTo(in, "(*leveldb/iterator.indexHeap).Push", "container/heap.Push")
	}
	reset := "(*leveldb/iterator.indexHeap).Reset"
	recvIsCurrent := func(c *ssa.Call) bool {
		// receiver = i.iters[i.index] (possibly through locals x := i.index; iter := i.iters[x])
		u, ok := stripConv(c.Call.Value).(*ssa.UnOp)
		if !ok || u.Op != token.MUL {
			return false
		}
		ia, ok := u.X.(*ssa.IndexAddr)
		return ok && isFieldLoad(ia.X, tM, "iters") && isFieldLoad(ia.Index, tM, "index")
	}
	curKeyCopy := func(v ssa.Value) bool {
		c, ok := stripConv(v).(*ssa.Call)
		if !ok || !isCallTo(c, "builtin:append") || !isNilConst(c.Call.Args[0]) {
			return false
		}
		u, ok := c.Call.Args[1].(*ssa.UnOp)
		if !ok || u.Op != token.MUL {
			return false
		}
		ia, ok := u.X.(*ssa.IndexAddr)
		return ok && isFieldLoad(ia.X, tM, "keys") && isFieldLoad(ia.Index, tM, "index")
	}
	type ms struct {
		name    string
		srcMove string
		reverse bool
		finish  string
		keyArg  bool
	}
	for _, m := range []ms{{"First", "First", false, "next", false}, {"Last", "Last", true, "prev", false}, {"Seek", "Seek", false, "next", true}} {
		fn := resolveFn(p, r, "leveldb/iterator", "(*mergedIterator)."+m.name)
		if fn == nil {
			continue
		}
		checkGuard(p, r, GuardSpec{Rule: "push-only-positioned", Fn: fn, Target: push, TargetDesc: "pushing a source on the heap", Atoms: []Atom{srcMove}, G: func(a []bool) bool { return a[0] }, GDesc: "the source's move succeeded", MinTargets: 1})
		checkGuard(p, r, GuardSpec{Rule: "false-only-on-error-or-end", Fn: fn, Target: retConstBool(false), TargetDesc: "return false", Atoms: []Atom{iterErr, errNil, dirTest}, G: func(a []bool) bool { return a[0] || !a[1] || a[2] }, GDesc: "iterErr ∨ i.err≠nil ∨ an end state", MinTargets: 1})
		checkCallArg(p, r, fn, "heap-orientation", reset, 1, func(v ssa.Value) bool { b, ok := constBool(v); return ok && b == m.reverse }, fmt.Sprintf("reverse=%v", m.reverse))
		ordOnSuccess(p, r, fn, "finishes-with-"+m.finish, atomEdges([]Atom{iterErr, errNil, dirTest}, []bool{false, true, false}), evCall("(*leveldb/iterator.mergedIterator)."+m.finish), "i."+m.finish+"()")
		// only this move on the sources, with the caller's key
		r.Site(1)
		okMoves, okKey := true, true
		nMoves := 0
		instrs(fn, func(_ *ssa.BasicBlock, _ int, in ssa.Instruction) {
			v, ok := in.(ssa.Value)
			if !ok || !srcCall(moves...)(v) {
				return
			}
			nMoves++
			c := v.(*ssa.Call)
			if c.Call.Method.Name() != m.srcMove {
				okMoves = false
			}
			if m.keyArg && (len(c.Call.Args) != 1 || !mParam("key")(c.Call.Args[0])) {
				okKey = false
			}
		})
		r.Check(okMoves && okKey && nMoves == 1, fnName(fn), "positions-every-source-alike", "every source is positioned with "+m.srcMove+" (and the caller's key)", fmt.Sprintf("%d source moves, kinds ok=%v, key ok=%v", nMoves, okMoves, okKey), p.Pos(fn.Pos()))
		// the loop ranges over all of i.iters
		r.Site(1)
		rng := countInstr(fn, func(in ssa.Instruction) bool {
			c, ok := in.(*ssa.Call)
			return ok && isCallTo(c, "builtin:len") && isFieldLoad(c.Call.Args[0], tM, "iters")
		})
		r.Check(rng >= 1, fnName(fn), "ranges-over-all-sources", "the positioning loop ranges over all of i.iters", "no range over i.iters", p.Pos(fn.Pos()))
	}
	for _, m := range []struct{ name, helper string }{{"Next", "next"}, {"Prev", "prev"}} {
		fn := resolveFn(p, r, "leveldb/iterator", "(*mergedIterator)."+m.name)
		if fn == nil {
			continue
		}
		checkGuard(p, r, GuardSpec{Rule: "push-only-positioned", Fn: fn, Target: push, TargetDesc: "pushing a source on the heap", Atoms: []Atom{srcMove}, G: func(a []bool) bool { return a[0] }, GDesc: "the source's move succeeded", MinTargets: 1})
		checkGuard(p, r, GuardSpec{Rule: "false-only-on-error-or-end", Fn: fn, Target: retConstBool(false), TargetDesc: "return false", Atoms: []Atom{iterErr, errNil, dirTest, selfMove}, G: func(a []bool) bool { return a[0] || !a[1] || a[2] || !a[3] }, GDesc: "iterErr ∨ i.err≠nil ∨ an end state ∨ the re-positioning failed", MinTargets: 1})
		// a source move that failed is examined for an error before the source is dropped
		checkGuardExact(p, r, GuardSpec{Rule: "failed-move-checked-for-error", Fn: fn, Starts: after(fn, func(in ssa.Instruction) bool {
			v, ok := in.(ssa.Value)
			return ok && srcCall(m.name)(v) && recvIsCurrent(v.(*ssa.Call))
		}), Target: evCall("(*leveldb/iterator.mergedIterator).iterErr"), TargetDesc: "iterErr(source) is consulted", Atoms: []Atom{srcMove}, G: func(a []bool) bool { return !a[0] }, GDesc: "the current source's move returned false"}, orPred(isReturn, evCall("(*leveldb/iterator.mergedIterator)."+m.helper)), "continuing without looking at the source's error")
		// the advanced source is the current one
		r.Site(1)
		nCur := 0
		instrs(fn, func(_ *ssa.BasicBlock, _ int, in ssa.Instruction) {
			if v, ok := in.(ssa.Value); ok && srcCall(m.name)(v) && recvIsCurrent(v.(*ssa.Call)) {
				nCur++
			}
		})
		r.Check(nCur == 1, fnName(fn), "advances-current-source", m.name+" advances iters[i.index], the source that supplied the current entry", fmt.Sprintf("%d such calls", nCur), p.Pos(fn.Pos()))
		ordOnSuccess(p, r, fn, "finishes-with-"+m.helper, atomEdges([]Atom{iterErr, errNil, dirTest, selfMove}, []bool{false, true, false, true}), evCall("(*leveldb/iterator.mergedIterator)."+m.helper, "(*leveldb/iterator.mergedIterator).First", "(*leveldb/iterator.mergedIterator).Last", "(*leveldb/iterator.mergedIterator).Next"), "i."+m.helper+"() (or a delegated move)")
	}
	if fn := resolveFn(p, r, "leveldb/iterator", "(*mergedIterator).Next"); fn != nil {
		// reversal: Seek(copy of the current key) then Next
		checkCallArg(p, r, fn, "reversal-seeks-copy-of-current-key", "(*leveldb/iterator.mergedIterator).Seek", 1, curKeyCopy, "append([]byte(nil), i.keys[i.index]...) (the key buffers are rewritten by the re-positioning)")
		ordFollow(p, r, fn, "reversal-skips-current", atomEdges([]Atom{selfMove}, []bool{true}), evCall("(*leveldb/iterator.mergedIterator).Seek"), "i.Seek(current key)", evCall("(*leveldb/iterator.mergedIterator).Next"), "i.Next() (step past the current entry)")
	}
	if fn := resolveFn(p, r, "leveldb/iterator", "(*mergedIterator).Prev"); fn != nil {
		checkCallArg(p, r, fn, "heap-orientation", reset, 1, func(v ssa.Value) bool { b, ok := constBool(v); return ok && b }, "reverse=true")
		// every other source: Seek(copy)
		r.Site(1)
		okSeek := 0
		instrs(fn, func(_ *ssa.BasicBlock, _ int, in ssa.Instruction) {
			if v, ok := in.(ssa.Value); ok && srcCall("Seek")(v) {
				if len(v.(*ssa.Call).Call.Args) == 1 && curKeyCopy(v.(*ssa.Call).Call.Args[0]) {
					okSeek++
				} else {
					okSeek = -100
				}
			}
		})
		r.Check(okSeek == 1, fnName(fn), "reversal-seeks-copy-of-current-key", "on a reversal the other sources are re-seeked around a private copy of the current key", fmt.Sprintf("%d", okSeek), p.Pos(fn.Pos()))
		// the current source is skipped in the re-seek loop
		notCur := cmpAtom("x!=i.index", token.NEQ, func(v ssa.Value) bool { return !isFieldLoad(v, tM, "index") }, mFieldLoad(tM, "index"))
		checkGuard(p, r, GuardSpec{Rule: "reversal-skips-current-source", Fn: fn, Target: func(in ssa.Instruction) bool { v, ok := in.(ssa.Value); return ok && srcCall("Seek")(v) }, TargetDesc: "re-seeking a source", Atoms: []Atom{notCur}, G: func(a []bool) bool { return a[0] }, GDesc: "x ≠ i.index (the current source is stepped once, below)", MinTargets: 1})
		// seek found ⇒ Prev; seek found nothing ⇒ Last
		seekOK := boolAtom("seek", srcCall("Seek"))
		checkGuard(p, r, GuardSpec{Rule: "after-seek-step-back", Fn: fn, Target: func(in ssa.Instruction) bool {
			v, ok := in.(ssa.Value)
			return ok && srcCall("Prev")(v) && !recvIsCurrent(v.(*ssa.Call))
		}, TargetDesc: "source.Prev() in the re-seek loop", Atoms: []Atom{seekOK}, G: func(a []bool) bool { return a[0] }, GDesc: "the seek found an entry >= key (step back to the entry < key)", MinTargets: 1})
		checkGuard(p, r, GuardSpec{Rule: "after-failed-seek-last", Fn: fn, Target: func(in ssa.Instruction) bool { v, ok := in.(ssa.Value); return ok && srcCall("Last")(v) }, TargetDesc: "source.Last() in the re-seek loop", Atoms: []Atom{seekOK}, G: func(a []bool) bool { return !a[0] }, GDesc: "the seek found nothing (all entries < key)", MinTargets: 1})
	}
	for _, h := range []struct {
		name        string
		empty, some int64
	}{{"next", 1, 3}, {"prev", 0, 2}} {
		fn := resolveFn(p, r, "leveldb/iterator", "(*mergedIterator)."+h.name)
		if fn == nil {
			continue
		}
		storeDir := func(k int64) InstrPred {
			return func(in ssa.Instruction) bool {
				st, ok := in.(*ssa.Store)
				return ok && isFieldAddr(st.Addr, tM, "dir") && mConstInt(k)(st.Val)
			}
		}
		checkGuard(p, r, GuardSpec{Rule: "end-state-only-when-empty", Fn: fn, Target: orPred(storeDir(h.empty), retConstBool(false)), TargetDesc: "entering the end state / return false", Atoms: []Atom{heapEmpty}, G: func(a []bool) bool { return a[0] }, GDesc: "the heap is empty", MinTargets: 2})
		checkGuard(p, r, GuardSpec{Rule: "pop-only-when-nonempty", Fn: fn, Target: orPred(evCall("container/heap.Pop"), storeDir(h.some), retConstBool(true)), TargetDesc: "popping the next source / direction set / return true", Atoms: []Atom{heapEmpty}, G: func(a []bool) bool { return !a[0] }, GDesc: "the heap is not empty", MinTargets: 3})
		// the popped index becomes i.index
		r.Site(1)
		okIdx := false
		instrs(fn, func(_ *ssa.BasicBlock, _ int, in ssa.Instruction) {
			if st, ok := in.(*ssa.Store); ok && isFieldAddr(st.Addr, tM, "index") {
				if ta, ok := st.Val.(*ssa.TypeAssert); ok {
					if _, ok := callValue(ta.X, "container/heap.Pop"); ok {
						okIdx = true
					}
				}
			}
		})
		r.Check(okIdx, fnName(fn), "current-is-heap-top", "i.index is the source popped from the heap (smallest key forward, largest backward)", "i.index is not heap.Pop(h)", p.Pos(fn.Pos()))
	}
	// Key/Value read the current source
	if fn := resolveFn(p, r, "leveldb/iterator", "(*mergedIterator).Value"); fn != nil {
		r.Site(1)
		n := 0
		instrs(fn, func(_ *ssa.BasicBlock, _ int, in ssa.Instruction) {
			if c, ok := in.(*ssa.Call); ok && c.Call.IsInvoke() && c.Call.Method.Name() == "Value" && recvIsCurrent(c) {
				n++
			}
		})
		r.Check(n == 1, fnName(fn), "value-of-current-source", "Value() is the current source's value", fmt.Sprintf("%d", n), p.Pos(fn.Pos()))
	}
}
