package main

import (
	"fmt"
	"sort"
	"strings"

	"golang.org/x/tools/go/ssa"
)

// ruleRecoverySiblings: DB.recoverJournal (read-write open) and DB.recoverJournalRO (read-only
// open) replay the same journals and must accept exactly the same records. They are sibling
// implementations of one procedure: for every error-returning callee they share, the way the
// error is treated (dropped / propagated / examined) must agree. One of two disagreeing siblings
// is wrong (Engler et al.): e.g. journal.Reader.Reset returns the PREVIOUS journal's latched end
// state; the read-write path ignores it, a sibling that propagates it fails every read-only open
// with more than one live journal.
func ruleRecoverySiblings(p *Prog, r *Report, rule string) {
	r.Begin(rule, "E-SIB", "journal replay siblings agree: DB.recoverJournal and DB.recoverJournalRO treat the error result of every callee they share in the same way (dropped / propagated / examined), decode batches with the same decoder against the running sequence, tolerate exactly the same damage (io.ErrUnexpectedEOF ⇒ next record) and build the reader with the same strict/checksum options", 8)
	defer r.End()
	a := resolveFn(p, r, "leveldb", "(*DB).recoverJournal")
	b := resolveFn(p, r, "leveldb", "(*DB).recoverJournalRO")
	if a == nil || b == nil {
		return
	}
	classify := func(fn *ssa.Function) map[string]map[string]bool {
		out := map[string]map[string]bool{}
		withAnons(fn, func(f *ssa.Function) {
			instrs(f, func(_ *ssa.BasicBlock, _ int, in ssa.Instruction) {
				c, ok := in.(*ssa.Call)
				if !ok {
					return
				}
				sig := c.Call.Signature()
				n := sig.Results().Len()
				if n == 0 || !isErrorType(sig.Results().At(n-1).Type()) {
					return
				}
				name := calleeName(&c.Call)
				if name == "" {
					return
				}
				var ev ssa.Value = c
				if n > 1 {
					ev = nil
					for _, ref := range *c.Referrers() {
						if ex, ok := ref.(*ssa.Extract); ok && ex.Index == n-1 {
							ev = ex
						}
					}
				}
				class := "dropped"
				if ev != nil {
					for _, ref := range *ev.Referrers() {
						switch x := ref.(type) {
						case *ssa.DebugRef:
						case *ssa.Return:
							class = "propagated"
						case *ssa.Store:
							if class != "propagated" {
								class = "examined"
							}
							_ = x
						default:
							if class == "dropped" {
								class = "examined"
							}
						}
					}
					// stored into the result cell and returned: look for a return in a block dominated… (cheap: any Return whose value loads that cell)
					if class == "examined" {
						for _, ref := range *ev.Referrers() {
							if st, ok := ref.(*ssa.Store); ok {
								if al, ok := st.Addr.(*ssa.Alloc); ok && !al.Heap {
									class = "propagated"
								}
							}
							if ca, ok := ref.(*ssa.Call); ok && isCallTo(ca, "leveldb/errors.SetFd") {
								class = "propagated"
							}
						}
					}
				}
				if out[name] == nil {
					out[name] = map[string]bool{}
				}
				out[name][class] = true
			})
		})
		return out
	}
	ca, cb := classify(a), classify(b)
	keys := func(m map[string]bool) string {
		var ks []string
		for k := range m {
			ks = append(ks, k)
		}
		sort.Strings(ks)
		return strings.Join(ks, "+")
	}
	shared := 0
	var names []string
	for name := range ca {
		if _, ok := cb[name]; ok {
			names = append(names, name)
		}
	}
	sort.Strings(names)
	for _, name := range names {
		shared++
		r.Site(1)
		ka, kb := keys(ca[name]), keys(cb[name])
		// "propagated" may legitimately be accompanied by "examined" (test, then return); compare on
		// whether the error can be dropped and whether it can be propagated
		da, db := ca[name]["dropped"], cb[name]["dropped"]
		pa, pb := ca[name]["propagated"], cb[name]["propagated"]
		r.Check(da == db && pa == pb, "recoverJournal~recoverJournalRO", "error-treatment:"+name, "both replay paths treat the error of "+name+" alike", fmt.Sprintf("recoverJournal: %s; recoverJournalRO: %s — one of the two is wrong", ka, kb), p.Pos(b.Pos()))
	}
	r.Check(shared >= 5, "recoverJournal~recoverJournalRO", "shared-callees", "the two replay paths share their error-returning callees (journal reader, batch decoder, storage)", fmt.Sprintf("only %d shared callees", shared), p.Pos(b.Pos()))
	// same decoder, same tolerated damage
	for _, fn := range []*ssa.Function{a, b} {
		r.Site(2)
		n := countInstr(fn, evCall("leveldb.decodeBatchToMem"))
		r.Check(n == 1, fnName(fn), "decodes-with-decodeBatchToMem", "records are decoded by decodeBatchToMem against the running db.seq", fmt.Sprintf("%d calls", n), p.Pos(fn.Pos()))
	}
	// reader options: NewReader(fr, dropper, strict, checksum) with strict/checksum from the same option getters
	optSig := func(fn *ssa.Function) string {
		var parts []string
		for _, c := range findCalls(fn, "leveldb/journal.NewReader", "(*leveldb/journal.Reader).Reset") {
			cc := callCommon(c)
			args := cc.Args
			for _, a := range args[len(args)-2:] {
				o := "?"
				if originsAll(a, func(l ssa.Value) bool {
					_, ok := callValue(l, "(*leveldb/opt.Options).GetStrict")
					return ok
				}) {
					o = "GetStrict"
				}
				parts = append(parts, o)
			}
		}
		return strings.Join(parts, ",")
	}
	r.Site(1)
	sa, sb := optSig(a), optSig(b)
	r.Check(sa == sb && !strings.Contains(sa, "?") && sa != "", "recoverJournal~recoverJournalRO", "reader-options", "both paths build the journal reader with strict/checksum taken from the Strict option", "recoverJournal: "+sa+"; recoverJournalRO: "+sb, p.Pos(b.Pos()))
}
