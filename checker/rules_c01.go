package main

import (
	"fmt"
	"go/token"

	"golang.org/x/tools/go/ssa"
)

func init() {
	register(&propDef{
		id:          "C01",
		run:         runC01,
		explanation: "Static analysis of the read path and of the mechanisms that keep the newest entry reachable: (1) comparer discipline — no raw byte comparison on keys anywhere in the engine packages; (2) lookup order and early return on a hit in DB.get/has (aux buffer → effective → frozen → tables) on every CFG path; (3) the guards inside version.get's per-table callback (level-0 newest-wins by sequence, deeper-level first hit stops the walk, tombstones hide older values) extracted from the SSA branch structure; (4) walkOverlapping visits a table only when the comparer says it may hold the key and stops when a callback says so; (5) the compaction drop guard and user-key cut rule; (6) a manifest-rotating commit carries the edit's own journal/sequence numbers, transactions never record a sequence ahead of an unflushed buffer, and journal replay restores db.seq. Each is a necessary condition of the ordered-map behaviour (breaking it yields a history with a stale/missing read). The map equivalence over all histories, options and comparers is NOT decided.",
		notCovered:  "that these mechanisms compose into map semantics for every history, option set and comparer; table/block encodings; index arithmetic of binary searches beyond 'they use the comparer'",
		assumptions: []string{"a user comparer satisfying the documented contract", "iterator/table/memdb primitives behave as specified (C13, C14)"},
	})
}

func mParam(name string) VMatch {
	return func(v ssa.Value) bool { pa, ok := v.(*ssa.Parameter); return ok && paramRefName(pa) == name }
}

// cellRefName: the name a local variable cell (Alloc) had in the reference tree — the k-th Alloc of
// the same function — so that renaming a local does not disturb the rules; the current name if the
// function is new or its number of cells changed.
func cellRefName(al *ssa.Alloc) string {
	fn := al.Parent()
	if fn == nil {
		return al.Comment
	}
	names := refCellNames[fnName(fn)]
	if names == nil {
		return al.Comment
	}
	k := 0
	idx := -1
	for _, b := range fn.Blocks {
		for _, in := range b.Instrs {
			if a, ok := in.(*ssa.Alloc); ok {
				if a == al {
					idx = k
				}
				k++
			}
		}
	}
	if k != len(names) || idx < 0 {
		return al.Comment
	}
	return names[idx]
}

// paramRefName: the name the parameter had in the reference tree (same function, same position),
// so that rules keep recognising a parameter that was merely renamed; the current name if the
// function is new or its arity changed.
func paramRefName(pa *ssa.Parameter) string {
	fn := pa.Parent()
	if fn == nil {
		return pa.Name()
	}
	names := refParamNames[fnName(fn)]
	if len(names) != len(fn.Params) {
		return pa.Name()
	}
	for i, q := range fn.Params {
		if q == pa {
			return names[i]
		}
	}
	return pa.Name()
}

func runC01(p *Prog, r *Report) {
	if want("C01.26") {
		// a version edit is applied exactly (shared with C06)
		ruleStagingAppliesEdit(p, r, "C01.26")
	}
	if want("C01.25") {
		// every record of a batch gets its own increasing sequence number (shared with C05/C11)
		ruleMemInsertSeq(p, r, "C01.25")
	}
	if want("C01.24") {
		// sorted levels stay sorted and disjoint (shared with C06)
		ruleLevelsSorted(p, r, "C01.24")
	}
	if want("C01.23") {
		// internal keys decode to what was encoded (shared with C15)
		ruleKeyCodec(p, r, "C01.23")
	}
	if want("C01.22") {
		// internal key order: user key ascending, sequence descending (shared with C15)
		ruleICompareSignTable(p, r, "C01.22")
	}
	if want("C01.21") {
		// compaction inputs are expanded to whole user-key ranges (shared with C06)
		ruleExpandRanges(p, r, "C01.21")
	}
	if want("C01.20") {
		// a compaction deletes exactly its inputs and adds exactly its outputs (shared with C06)
		ruleCompactionEdit(p, r, "C01.20")
	}
	if want("C01.19") {
		// batch records decode to what was encoded (shared with C04)
		ruleBatchCodec(p, r, "C01.19")
	}
	if want("C01.1") {
		ruleComparerDiscipline(p, r, "C01.1", cmpPkgs, nil)
	}
	if want("C01.2") {
		ruleLookupOrder(p, r, "C01.2")
	}
	if want("C01.3") {
		ruleVersionGetGuards(p, r, "C01.3")
	}
	if want("C01.4") {
		ruleRotatingCommitCarriesRecord(p, r, "C01.4")
	}
	if want("C01.5") {
		ruleTrSeqAfterFlush(p, r, "C01.5")
	}
	if want("C01.6") {
		ruleRecoveryRestoresSeq(p, r, "C01.6")
	}
	if want("C01.7") {
		ruleDropGuard(p, r, "C01.7")
	}
	if want("C01.8") {
		ruleCutAtUkeyBoundary(p, r, "C01.8")
	}
	if want("C01.9") {
		ruleMemGet(p, r, "C01.9")
	}
	if want("C01.10") {
		ruleBaseLevel(p, r, "C01.10")
	}
	if want("C01.18") {
		// transaction / large-batch records get fresh sequence numbers (shared with C11.1b)
		ruleTrRecordSeq(p, r, "C01.18")
	}
	if want("C01.17") {
		// a recycled table number must not be read through the removed table's cached blocks (D15)
		ruleFileNumRecycling(p, r, "C01.17")
	}
	if want("C01.16") {
		ruleOverlapResultOwned(p, r, "C01.16")
	}
	if want("C01.15") {
		ruleSkipListSearch(p, r, "C01.15")
	}
	if want("C01.14") {
		ruleRetrySnapshotsAreCopies(p, r, "C01.14")
	}
	if want("C01.13") {
		ruleDstOwnership(p, r, "C01.13")
	}
	if want("C01.12") {
		ruleMemdbComparer(p, r, "C01.12")
	}
	if want("C01.11") {
		ruleRangePredicates(p, r, "C01.11")
	}
}

// ruleLookupOrder: C01.2 (also C05.1, C11.6).
func ruleLookupOrder(p *Prog, r *Report, rule string) {
	r.Begin(rule, "E-ORD", "lookup order in DB.get / DB.has: auxiliary (transaction) buffer → effective buffer → frozen buffer → tables; a hit in an earlier source returns without consulting later ones; buffers are acquired before the version", 12)
	defer r.End()
	for _, name := range []string{"(*DB).get", "(*DB).has"} {
		fn := resolveFn(p, r, "leveldb", name)
		if fn == nil {
			continue
		}
		memGet := evCall("leveldb.memGet")
		auxGet := andPred(memGet, predArg(0, mParam("auxm")))
		getMems := evCall("(*leveldb.DB).getMems")
		version := evCall("(*leveldb.session).version")
		vget := evCall("(*leveldb.version).get")
		auxNonNil := assumeBool(func(v ssa.Value) (bool, bool) {
			if b, ok := v.(*ssa.BinOp); ok && (b.Op == token.NEQ || b.Op == token.EQL) && mParam("auxm")(b.X) && isNilConst(b.Y) {
				return b.Op == token.NEQ, true
			}
			return false, false
		})
		ordPrecede(p, r, fn, "aux-before-shared-buffers", auxNonNil, auxGet, "memGet(auxm) [transaction's own buffer]", getMems, "getMems()")
		ordPrecede(p, r, fn, "buffers-before-version", nil, getMems, "getMems()", version, "session.version()")
		ordPrecede(p, r, fn, "version-before-table-lookup", nil, version, "session.version()", vget, "version.get")
		// effective before frozen: the array literal feeding the loop is {getMems #0, getMems #1}
		var elems [2]ssa.Value
		n := 0
		instrs(fn, func(_ *ssa.BasicBlock, _ int, in ssa.Instruction) {
			st, ok := in.(*ssa.Store)
			if !ok {
				return
			}
			ia, ok := st.Addr.(*ssa.IndexAddr)
			if !ok {
				return
			}
			if _, ok := ia.X.(*ssa.Alloc); !ok {
				return
			}
			idx, ok := constInt(ia.Index)
			if !ok || idx < 0 || idx > 1 {
				return
			}
			elems[idx] = st.Val
			n++
		})
		_, e0 := extractOf(elems[0], 0, "(*leveldb.DB).getMems")
		_, e1 := extractOf(elems[1], 1, "(*leveldb.DB).getMems")
		r.Site(1)
		if n == 2 && e0 && e1 {
			r.OK(fnName(fn), "effective-before-frozen", "the shared buffers are searched in the order {effective, frozen} (newer first)")
		} else {
			// unrolled form: memGet(em.DB, …) precedes memGet(fm.DB, …)
			bufGet := func(idx int) InstrPred {
				return func(in ssa.Instruction) bool {
					if !memGet(in) {
						return false
					}
					a := callCommon(in).Args[0]
					u, ok := stripConv(a).(*ssa.UnOp)
					if !ok {
						return false
					}
					_, f, base, ok := fieldOf(u.X)
					if !ok || f != "DB" {
						return false
					}
					_, isEx := extractOf(base, idx, "(*leveldb.DB).getMems")
					return isEx
				}
			}
			g0, g1 := bufGet(0), bufGet(1)
			if countInstr(fn, g0) == 1 && countInstr(fn, g1) == 1 {
				// (the effective buffer may be absent: what must not happen is frozen first, effective after)
				if w := findPath(after(fn, g1), nil, nil, g0); w != nil {
					r.Fail(fnName(fn), "effective-before-frozen", "the shared buffers are searched in the order {effective, frozen} (newer first)", "the effective buffer is searched after the frozen one", p.posOfLast(w, g0), p.renderPath(w))
				} else {
					r.OK(fnName(fn), "effective-before-frozen", "the shared buffers are searched in the order {effective, frozen} (newer first)")
				}
			} else {
				r.Fail(fnName(fn), "effective-before-frozen", "the shared buffers are searched in the order {effective, frozen} (newer first)", "neither a loop over {getMems#0 (effective), getMems#1 (frozen)} nor one memGet per buffer in that order was found", p.Pos(fn.Pos()), nil)
			}
		}
		// memGet is applied to the loop element's DB
		loopGet := andPred(memGet, func(in ssa.Instruction) bool { return !argIs(in, 0, mParam("auxm")) })
		if requireSites(p, r, fn, "buffer-lookup", "memGet(m.DB) in the buffer loop", loopGet, 1) {
			ordPrecede(p, r, fn, "mems-before-buffer-lookup", nil, getMems, "getMems()", loopGet, "memGet(m.DB)")
		}
		// a hit returns: after memGet with ok==true no later source is consulted
		okTrue := assumeBool(func(v ssa.Value) (bool, bool) {
			if _, ok := extractOf(v, 0, "leveldb.memGet"); ok {
				return true, true
			}
			return false, false
		})
		ordNeverAfter(p, r, fn, "hit-returns", okTrue, memGet, "a memGet hit (ok==true)", orPred(memGet, getMems, version, vget), "a later source (memGet / getMems / version / version.get)", nil, "")
		// probe key: built from the seq parameter with keyTypeSeek
		checkCallArg(p, r, fn, "probe-seq", "leveldb.makeInternalKey", 2, mParam("seq"), "the caller-fixed seq parameter (not db.seq, not keyMaxSeq)")
		checkCallArg(p, r, fn, "probe-kind", "leveldb.makeInternalKey", 3, mConstInt(1), "keyTypeSeek (= largest kind, so the probe sorts before the newest visible entry)")
		checkCallArg(p, r, fn, "probe-ukey", "leveldb.makeInternalKey", 1, mParam("key"), "the key parameter")
		// the same probe goes to every source
		for _, c := range findCalls(fn, "leveldb.memGet") {
			r.Site(1)
			r.Check(argIs(c, 1, mCall("leveldb.makeInternalKey")), fnName(fn), "same-probe-to-buffers", "buffers are probed with the internal key built above", "memGet receives a different key", p.Pos(c.Pos()))
		}
		checkCallArg(p, r, fn, "same-probe-to-tables", "(*leveldb.version).get", 2, mCall("leveldb.makeInternalKey"), "the internal probe key")
		checkCallArg(p, r, fn, "aux-tables-passed", "(*leveldb.version).get", 1, mParam("auxt"), "the auxiliary (transaction) tables")
	}
}

// ruleMemGet: C01.9 — memGet's verdict.
func ruleMemGet(p *Prog, r *Report, rule string) {
	r.Begin(rule, "E-GUARD", "memGet: a buffer hit is reported only when the found entry has the probed user key (comparer equality); a tombstone reports ErrNotFound (hiding older data), a value reports the value", 3)
	defer r.End()
	fn := resolveFn(p, r, "leveldb", "memGet")
	if fn == nil {
		return
	}
	ukeyEq := cmpAtom("uCompare(ukey,probe)==0", token.EQL, mCall(fUCompare), mConstInt(0))
	findOK := nilAtom("Find err==nil", mExtract(2, "(*leveldb/memdb.DB).Find"))
	isDel := cmpAtom("kt==keyTypeDel", token.EQL, mExtract(2, fParseIKey), mConstInt(0))
	retOK := func(val bool) InstrPred {
		return func(in ssa.Instruction) bool {
			ret, ok := in.(*ssa.Return)
			if !ok || len(ret.Results) != 3 {
				return false
			}
			b, ok := constBool(retValue(ret, ret.Results[0]))
			return ok && b == val
		}
	}
	retHitValue := func(in ssa.Instruction) bool {
		ret, ok := in.(*ssa.Return)
		return ok && retOK(true)(in) && isNilConst(retValue(ret, ret.Results[2]))
	}
	retHitNotFound := func(in ssa.Instruction) bool {
		ret, ok := in.(*ssa.Return)
		if !ok || !retOK(true)(in) {
			return false
		}
		u, ok := retValue(ret, ret.Results[2]).(*ssa.UnOp)
		if !ok {
			return false
		}
		g, ok := u.X.(*ssa.Global)
		return ok && g.Name() == "ErrNotFound"
	}
	checkGuard(p, r, GuardSpec{Rule: "value-hit", Fn: fn, Target: retHitValue, TargetDesc: "return (true, value, nil)", Atoms: []Atom{findOK, ukeyEq, isDel}, G: func(a []bool) bool { return a[0] && a[1] && !a[2] }, GDesc: "found ∧ same user key ∧ not a tombstone", MinTargets: 1})
	checkGuard(p, r, GuardSpec{Rule: "tombstone-hit", Fn: fn, Target: retHitNotFound, TargetDesc: "return (true, nil, ErrNotFound)", Atoms: []Atom{findOK, ukeyEq, isDel}, G: func(a []bool) bool { return a[0] && a[1] && a[2] }, GDesc: "found ∧ same user key ∧ tombstone", MinTargets: 1})
	// conversely: an entry of the probed user key IS a hit (a value that is skipped lets an older
	// version from a later source answer; a tombstone that is skipped resurrects the key)
	notHit := func(in ssa.Instruction) bool { return isReturn(in) && !retOK(true)(in) }
	checkGuardExact(p, r, GuardSpec{Rule: "value-hit", Fn: fn, Target: retHitValue, TargetDesc: "the value is reported as a hit", Atoms: []Atom{findOK, ukeyEq, isDel}, G: func(a []bool) bool { return a[0] && a[1] && !a[2] }, GDesc: "found ∧ same user key ∧ not a tombstone"}, notHit, "a non-hit return")
	checkGuardExact(p, r, GuardSpec{Rule: "tombstone-hit", Fn: fn, Target: retHitNotFound, TargetDesc: "the tombstone is reported as a hit (ErrNotFound)", Atoms: []Atom{findOK, ukeyEq, isDel}, G: func(a []bool) bool { return a[0] && a[1] && a[2] }, GDesc: "found ∧ same user key ∧ tombstone"}, notHit, "a non-hit return")
	// compare the FOUND key's user part with the probe's user part
	checkCallArg(p, r, fn, "compares-found-ukey", fUCompare, 1, mExtract(0, fParseIKey), "the found entry's user key")
	checkCallArg(p, r, fn, "compares-probe-ukey", fUCompare, 2, mCall("(leveldb.internalKey).ukey"), "the probe's user key")
	checkCallArg(p, r, fn, "find-with-probe", "(*leveldb/memdb.DB).Find", 1, func(v ssa.Value) bool { return mParam("ikey")(stripConv(v)) }, "the probe key")
}

func mCellLoad(name string) VMatch { return mCellNamed(name) }

func evStoreCell(name string) InstrPred {
	return func(in ssa.Instruction) bool {
		st, ok := in.(*ssa.Store)
		if !ok {
			return false
		}
		al := resolveCell(st.Addr)
		return al != nil && cellRefName(al) == name
	}
}

func storeValueNonNilC01(in ssa.Instruction) bool {
	st, ok := in.(*ssa.Store)
	return ok && evStoreCell("value")(in) && !isNilConst(st.Val)
}

// ruleVersionGetGuards: C01.3.
func ruleVersionGetGuards(p *Prog, r *Report, rule string) {
	r.Begin(rule, "E-GUARD", "version.get: level<=0 candidates are replaced only by a same-user-key entry with fseq >= zseq (newest wins among overlapping files); at deeper levels the first user-key match decides (value or tombstone) and stops the walk; the level callback returns the level-0 result before any deeper level is consulted; walkOverlapping visits a table only when the comparer says it may contain the key and stops when told", 10)
	defer r.End()
	fn := resolveFn(p, r, "leveldb", "(*version).get")
	if fn == nil {
		return
	}
	var cb, lcb *ssa.Function
	for _, a := range fn.AnonFuncs {
		if countInstr(a, evCall("(*leveldb.tOps).find")) > 0 {
			cb = a
		} else if countInstr(a, evStoreCell("value")) > 0 {
			lcb = a
		}
	}
	if cb == nil || lcb == nil {
		r.Fail(fnName(fn), "callbacks:unresolved-anchor", "version.get has a per-table and a per-level callback", "closures not found", p.Pos(fn.Pos()), nil)
		return
	}
	r.Fn(fnName(cb))
	r.Fn(fnName(lcb))
	ferrNil := nilAtom("ferr==nil", mOriginAny(mErrOfCall("(*leveldb.tOps).find", "(*leveldb.tOps).findKey")))
	kerrNil := nilAtom("fkerr==nil", mExtract(3, fParseIKey))
	ukeyEq := cmpAtom("uCompare(ukey,fukey)==0", token.EQL, mCall(fUCompare), mConstInt(0))
	lvl0 := cmpAtom("level<=0", token.LEQ, mParam("level"), mConstInt(0))
	newer := cmpAtom("fseq>=zseq", token.GEQ, mExtract(1, fParseIKey), mCellNamed("zseq"))
	isVal := cmpAtom("fkt==keyTypeVal", token.EQL, mExtract(2, fParseIKey), mConstInt(1))
	atoms := []Atom{ferrNil, kerrNil, ukeyEq, lvl0, newer, isVal}
	for _, cell := range []string{"zval", "zseq", "zkt", "zfound"} {
		checkGuard(p, r, GuardSpec{Rule: "level0-candidate:" + cell, Fn: cb, Target: evStoreCell(cell), TargetDesc: "store to " + cell + " (level-0 candidate)",
			Atoms: atoms, G: func(a []bool) bool { return a[0] && a[1] && a[2] && a[3] && a[4] }, GDesc: "ferr==nil ∧ fkerr==nil ∧ same user key ∧ level<=0 ∧ fseq>=zseq", MinTargets: 1})
	}
	// conversely: a qualifying level-0 entry DOES become the candidate, a deeper-level value IS the
	// result and clears the not-found default (skipping either returns an older version / not-found)
	anyRet := isReturn
	checkGuardExact(p, r, GuardSpec{Rule: "level0-candidate-taken", Fn: cb, Target: evStoreCell("zseq"), TargetDesc: "the entry becomes the level-0 candidate", Atoms: atoms,
		G: func(a []bool) bool { return a[0] && a[1] && a[2] && a[3] && a[4] }, GDesc: "no error ∧ same user key ∧ level<=0 ∧ fseq>=zseq"}, anyRet, "return")
	checkGuardExact(p, r, GuardSpec{Rule: "deeper-value-taken", Fn: cb, Target: storeValueNonNilC01, TargetDesc: "the entry's value becomes the result", Atoms: atoms,
		G: func(a []bool) bool { return a[0] && a[1] && a[2] && !a[3] && a[5] }, GDesc: "no error ∧ same user key ∧ level>0 ∧ kind==Val"}, anyRet, "return")
	clearErr := func(in ssa.Instruction) bool {
		st, ok := in.(*ssa.Store)
		return ok && evStoreCell("err")(in) && isNilConst(st.Val)
	}
	checkGuardExact(p, r, GuardSpec{Rule: "deeper-value-clears-notfound", Fn: cb, Target: clearErr, TargetDesc: "err = nil", Atoms: atoms,
		G: func(a []bool) bool { return a[0] && a[1] && a[2] && !a[3] && a[5] }, GDesc: "no error ∧ same user key ∧ level>0 ∧ kind==Val"}, anyRet, "return")
	// the stored candidate is the found entry
	checkStoreCell(p, r, cb, "zseq-is-fseq", "zseq", mExtract(1, fParseIKey), "the found entry's sequence")
	checkStoreCell(p, r, cb, "zkt-is-fkt", "zkt", mExtract(2, fParseIKey), "the found entry's kind")
	storeValueNonNil := func(in ssa.Instruction) bool {
		st, ok := in.(*ssa.Store)
		return ok && evStoreCell("value")(in) && !isNilConst(st.Val)
	}
	checkGuard(p, r, GuardSpec{Rule: "deeper-level-value", Fn: cb, Target: storeValueNonNil, TargetDesc: "store to the result value (deeper-level hit)",
		Atoms: atoms, G: func(a []bool) bool { return a[0] && a[1] && a[2] && !a[3] && a[5] }, GDesc: "ferr==nil ∧ fkerr==nil ∧ same user key ∧ level>0 ∧ kind==Val", MinTargets: 1})
	// a deeper-level match (value or tombstone) stops the walk; a non-match continues
	retBool := func(val bool) InstrPred {
		return func(in ssa.Instruction) bool {
			ret, ok := in.(*ssa.Return)
			if !ok || len(ret.Results) != 1 {
				return false
			}
			b, ok := constBool(ret.Results[0])
			return ok && b == val
		}
	}
	ucmpCall := evCall(fUCompare)
	checkGuard(p, r, GuardSpec{Rule: "deeper-match-stops-walk", Fn: cb, Starts: after(cb, ucmpCall), Target: retBool(true), TargetDesc: "return true (continue the walk) after the user-key comparison",
		Atoms: []Atom{ukeyEq, lvl0}, G: func(a []bool) bool { return !a[0] || a[1] }, GDesc: "¬same-user-key ∨ level<=0", MinTargets: 1})
	// an I/O or corruption error stops the walk and is reported
	isNotFound := Atom{Name: "ferr==ErrNotFound", Match: func(cond ssa.Value) (int, int) {
		b, ok := cond.(*ssa.BinOp)
		if !ok || (b.Op != token.EQL && b.Op != token.NEQ) {
			return 0, 0
		}
		isNF := func(v ssa.Value) bool {
			u, ok := v.(*ssa.UnOp)
			if !ok {
				return false
			}
			g, ok := u.X.(*ssa.Global)
			return ok && g.Name() == "ErrNotFound"
		}
		if (isNF(b.Y) && isErrorType(b.X.Type())) || (isNF(b.X) && isErrorType(b.Y.Type())) {
			if b.Op == token.EQL {
				return +1, -1
			}
			return -1, +1
		}
		return 0, 0
	}}
	checkGuard(p, r, GuardSpec{Rule: "error-stops-walk", Fn: cb, Target: retBool(true), TargetDesc: "return true (continue the walk)",
		Atoms: []Atom{ferrNil, isNotFound, kerrNil}, G: func(a []bool) bool { return (a[0] && a[2]) || (!a[0] && a[1]) }, GDesc: "(no error) ∨ ferr==ErrNotFound", MinTargets: 1})
	// find vs findKey by noValue, both probe with ikey on table t
	checkCallArg(p, r, cb, "probe-table", "(*leveldb.tOps).find", 1, mParam("t"), "the visited table")
	checkCallArg(p, r, cb, "probe-key", "(*leveldb.tOps).find", 2, func(v ssa.Value) bool { return mCellNamed("ikey")(stripConv(v)) }, "the probe key")
	checkCallArg(p, r, cb, "parse-found-key", fParseIKey, 0, mOriginAny(mOr(mExtract(0, "(*leveldb.tOps).find"), mExtract(0, "(*leveldb.tOps).findKey"))), "the key returned by the table")

	// per-level callback
	zfound := boolAtom("zfound", mCellNamed("zfound"))
	zIsVal := cmpAtom("zkt==keyTypeVal", token.EQL, mCellNamed("zkt"), mConstInt(1))
	checkGuard(p, r, GuardSpec{Rule: "level0-result-value", Fn: lcb, Target: evStoreCell("value"), TargetDesc: "store of the level-0 candidate into the result",
		Atoms: []Atom{zfound, zIsVal}, G: func(a []bool) bool { return a[0] && a[1] }, GDesc: "zfound ∧ zkt==Val", MinTargets: 1})
	checkGuard(p, r, GuardSpec{Rule: "level0-result-stops", Fn: lcb, Target: retBool(true), TargetDesc: "return true (descend to the next level)",
		Atoms: []Atom{zfound}, G: func(a []bool) bool { return !a[0] }, GDesc: "¬zfound", MinTargets: 1})
	checkStoreCell(p, r, lcb, "result-is-zval", "value", mCellNamed("zval"), "the newest level-0 candidate's value")
	checkGuardExact(p, r, GuardSpec{Rule: "level0-candidate-returned", Fn: lcb, Target: evStoreCell("value"), TargetDesc: "the level-0 candidate's value becomes the result", Atoms: []Atom{zfound, zIsVal},
		G: func(a []bool) bool { return a[0] && a[1] }, GDesc: "zfound ∧ zkt==Val"}, isReturn, "return")

	// walkOverlapping
	wo := resolveFn(p, r, "leveldb", "(*version).walkOverlapping")
	if wo == nil {
		return
	}
	callF := func(in ssa.Instruction) bool {
		c, ok := in.(*ssa.Call)
		return ok && !c.Call.IsInvoke() && mParam("f")(c.Call.Value)
	}
	callLF := func(in ssa.Instruction) bool {
		c, ok := in.(*ssa.Call)
		return ok && !c.Call.IsInvoke() && mParam("lf")(c.Call.Value)
	}
	overlaps := boolAtom("t.overlaps(ukey,ukey)", mCall("(*leveldb.tFile).overlaps"))
	inRange := cmpAtom("uCompare(ukey,t.imin.ukey())>=0", token.GEQ, mCall(fUCompare), mConstInt(0))
	checkGuard(p, r, GuardSpec{Rule: "visit-only-candidates", Fn: wo, Target: callF, TargetDesc: "f(level, t) (a table is probed)",
		Atoms: []Atom{overlaps, inRange}, G: func(a []bool) bool { return a[0] || a[1] }, GDesc: "t.overlaps(icmp, ukey, ukey) ∨ uCompare(ukey, t.imin.ukey()) >= 0", MinTargets: 3})
	// stop when a callback returns false
	fFalse := assumeBool(func(v ssa.Value) (bool, bool) {
		if c, ok := v.(*ssa.Call); ok && (callF(c) || callLF(c)) {
			return false, true
		}
		return false, false
	})
	ordNeverAfter(p, r, wo, "stop-when-told", fFalse, orPred(callF, callLF), "a callback returning false", orPred(callF, callLF), "another callback", nil, "")
	// deeper levels: the candidate is found with searchMax on the internal probe key
	checkCallArg(p, r, wo, "deeper-level-search-key", "(leveldb.tFiles).searchMax", 2, mParam("ikey"), "the internal probe key")
	// level callback is invoked after each level's tables
	fTrue := assumeBool(func(v ssa.Value) (bool, bool) {
		if c, ok := v.(*ssa.Call); ok && callF(c) {
			return true, true
		}
		return false, false
	})
	lfNonNil := assumeBool(func(v ssa.Value) (bool, bool) {
		if b, ok := v.(*ssa.BinOp); ok && (b.Op == token.NEQ || b.Op == token.EQL) && mParam("lf")(b.X) && isNilConst(b.Y) {
			return b.Op == token.NEQ, true
		}
		return false, false
	})
	ordFollow(p, r, wo, "level-callback-after-tables", andEdges(fTrue, lfNonNil), andPred(callF, func(in ssa.Instruction) bool {
		// f calls whose level argument is not the constant -1 (aux)
		c := in.(*ssa.Call)
		_, isConst := constInt(c.Call.Args[0])
		return !isConst
	}), "f(level, t)", orPred(callLF, func(in ssa.Instruction) bool {
		// or the walk ends because f returned false
		return false
	}), "lf(level)")
}

// checkStoreCell: every store into the named local cell (in fn) stores a value matching m.
func checkStoreCell(p *Prog, r *Report, fn *ssa.Function, kind, cell string, m VMatch, desc string) {
	what := fmt.Sprintf("every store to %s is %s", cell, desc)
	n, bad := 0, ""
	instrs(fn, func(_ *ssa.BasicBlock, _ int, in ssa.Instruction) {
		if st, ok := in.(*ssa.Store); ok && evStoreCell(cell)(in) {
			n++
			if !m(st.Val) && !isNilConst(st.Val) {
				bad = p.Pos(st.Pos())
			}
		}
	})
	if n == 0 {
		r.Fail(fnName(fn), kind+":unresolved-anchor", what, "no store to "+cell, p.Pos(fn.Pos()), nil)
		return
	}
	r.Site(n)
	r.Check(bad == "", fnName(fn), kind, what, "store at "+bad+" has a different origin", bad)
}

// ruleRecoveryRestoresSeq: C01.6.
func ruleRecoveryRestoresSeq(p *Prog, r *Report, rule string) {
	r.Begin(rule, "E-FLOW", "journal replay restores the sequence: db.seq := batchSeq + batchLen after every accepted record; records are checked against the running db.seq; the recovery commits record db.seq", 4)
	defer r.End()
	for _, name := range []string{"(*DB).recoverJournal", "(*DB).recoverJournalRO"} {
		fn := resolveFn(p, r, "leveldb", name)
		if fn == nil {
			continue
		}
		dec := "leveldb.decodeBatchToMem"
		n, okv := 0, true
		instrs(fn, func(_ *ssa.BasicBlock, _ int, in ssa.Instruction) {
			st, ok := in.(*ssa.Store)
			if !ok || !isFieldAddr(st.Addr, tDB, "seq") {
				return
			}
			n++
			b, ok := st.Val.(*ssa.BinOp)
			if !ok || b.Op != token.ADD {
				okv = false
				return
			}
			_, a := extractOf(b.X, 0, dec)
			_, c := extractOf(b.Y, 1, dec)
			_, a2 := extractOf(b.Y, 0, dec)
			_, c2 := extractOf(b.X, 1, dec)
			if !((a && c) || (a2 && c2)) {
				okv = false
			}
		})
		r.Site(n)
		r.Check(n >= 1 && okv, fnName(fn), "seq-restored", "db.seq = batchSeq + batchLen of the record just replayed", fmt.Sprintf("%d stores to db.seq, all of the required form: %v", n, okv), p.Pos(fn.Pos()))
		checkCallArg(p, r, fn, "expect-seq", dec, 1, mFieldLoad(tDB, "seq"), "db.seq (records below it are rejected)")
		// the store happens only for accepted records
		ordNotOnError(p, r, fn, "no-seq-on-rejected-record", mErrOfCall(dec), dec, evCall(dec), evStoreField(tDB, "seq"), "db.seq = …")
	}
	if fn := resolveFn(p, r, "leveldb", "openDB"); fn != nil {
		// initial sequence comes from the manifest
		n, okv := 0, true
		instrs(fn, func(_ *ssa.BasicBlock, _ int, in ssa.Instruction) {
			if st, ok := in.(*ssa.Store); ok && isFieldAddr(st.Addr, tDB, "seq") {
				n++
				if !isFieldLoad(st.Val, "leveldb.session", "stSeqNum") {
					okv = false
				}
			}
		})
		r.Site(n)
		r.Check(n == 1 && okv, fnName(fn), "initial-seq-from-manifest", "a new DB handle starts at the manifest's sequence number (s.stSeqNum)", "DB.seq is not initialised from s.stSeqNum", p.Pos(fn.Pos()))
	}
	if fn := resolveFn(p, r, "leveldb", "decodeBatchToMem"); fn != nil {
		// entries are keyed seq+i and the record is rejected if seq < expectSeq
		lt := cmpAtom("seq<expectSeq", token.LSS, mOr(mExtract(0, "leveldb.decodeBatchHeader"), mCellNamed("seq")), mParam("expectSeq"))
		var put *ssa.Function
		for _, a := range fn.AnonFuncs {
			if countInstr(a, evCall("(*leveldb/memdb.DB).Put")) > 0 {
				put = a
			}
		}
		checkGuard(p, r, GuardSpec{Rule: "reject-stale-record", Fn: fn, Target: evCall("leveldb.decodeBatch"), TargetDesc: "decoding the record's entries into the buffer",
			Atoms: []Atom{lt}, G: func(a []bool) bool { return !a[0] }, GDesc: "¬(seq < expectSeq)", MinTargets: 1})
		r.Check(put != nil, fnName(fn), "inserts-entries", "the replay closure inserts entries into the buffer", "no closure calling memdb.Put", p.Pos(fn.Pos()))
	}
}
