package main

func runThorough(id string, d *propDef, p *Prog, r *Report, repo string) {
}
