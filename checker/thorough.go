package main

import (
	"encoding/json"
	"fmt"
	"os"
	"os/exec"
	"path/filepath"
	"sort"
	"strings"
	"sync"
)

// The thorough tier adds, on top of everything the quick tier does:
//  (a) the same rules on other build configurations of /repo's current tree (linux/386 — build-
//      tagged files and 32-bit alignment — and windows/amd64, darwin/amd64 for the storage files);
//  (b) a cross-check of every call-graph dependent rule under the coarser CHA call graph
//      (differences are recorded, not reported: CHA over-approximates);
//  (c) a self-test of the rules: every catalogued mutant of this property (a realistic breaking
//      edit, /verif/mutants/*.json) and every confirmed seeded regression (/verif/seeded/*) is
//      applied to the CURRENT tree as an in-memory overlay / scratch copy, re-analysed in a child
//      process, and must make the expected rule fire; benign refactorings must stay silent.
//      A missed mutant is printed as SELFTEST-MISS and recorded in the evidence; it is a defect of
//      the checker, not of goleveldb, so it does not produce a VIOLATION line.

type mutEdit struct {
	File    string `json:"file"`
	Find    string `json:"find"`
	Replace string `json:"replace"`
	Count   int    `json:"count"`
}

type mutant struct {
	ID     string     `json:"id"`
	Edits  []mutEdit  `json:"edits"`
	Expect [][]string `json:"expect"`
	Silent []string   `json:"silent"`
	Note   string     `json:"note"`
}

var loadOverlay map[string][]byte

// applyMutantOverlay prepares the overlay for -mutant file:id. ok=false: context not found.
func applyMutantOverlay(repo, spec string) (bool, error) {
	i := strings.LastIndex(spec, ":")
	if i < 0 {
		return false, fmt.Errorf("-mutant wants file.json:id")
	}
	var ms []mutant
	b, err := os.ReadFile(spec[:i])
	if err != nil {
		return false, err
	}
	if err := json.Unmarshal(b, &ms); err != nil {
		return false, err
	}
	for _, m := range ms {
		if m.ID != spec[i+1:] {
			continue
		}
		loadOverlay = map[string][]byte{}
		for _, e := range m.Edits {
			path := filepath.Join(repo, e.File)
			src, ok := loadOverlay[path]
			if !ok {
				src, err = os.ReadFile(path)
				if err != nil {
					return false, err
				}
			}
			cnt := e.Count
			if cnt == 0 {
				cnt = 1
			}
			if strings.Count(string(src), e.Find) != cnt {
				return false, nil
			}
			loadOverlay[path] = []byte(strings.ReplaceAll(string(src), e.Find, e.Replace))
		}
		return true, nil
	}
	return false, fmt.Errorf("mutant %s not found", spec[i+1:])
}

func runSub(id string, d *propDef, p *Prog) *Report {
	sub := newReport(id, "sub", 0, "")
	func() {
		defer func() {
			if x := recover(); x != nil {
				if sub.cur == nil {
					sub.Begin(id+".panic", "ENGINE", "analysis completes", 0)
				}
				sub.Fail("checker", "analysis-panic", "analysis completes without internal error", fmt.Sprint(x), "", nil)
				sub.End()
			}
		}()
		d.run(p, sub)
	}()
	return sub
}

func runThorough(id string, d *propDef, p *Prog, r *Report, repo, verif string) {
	// (a) other build configurations
	type cfg struct{ goos, goarch string }
	var cfgNotes []string
	for _, c := range []cfg{{"linux", "386"}, {"windows", "amd64"}, {"darwin", "amd64"}} {
		name := c.goos + "/" + c.goarch
		r.Begin(id+".cfg["+name+"]", "CONFIG", "the same rules hold for the "+name+" build of the current tree (build-tagged files, word size)", 1)
		q, err := loadProg(repo, c.goos, c.goarch, []string{"./leveldb/..."}, 13)
		if err != nil {
			r.Fail("repo["+name+"]", "load-error", "the tree loads and type-checks for "+name, err.Error(), "", nil)
			r.End()
			continue
		}
		sub := runSub(id, d, q)
		nf := 0
		for _, o := range sub.Obls {
			r.Site(1)
			if o.Status != "ok" {
				nf++
				r.Fail("["+name+"] "+o.Construct, o.Rule+":"+o.Kind, o.What, o.Detail, o.Pos, o.Path)
			}
		}
		if nf == 0 {
			r.OK("repo["+name+"]", "all-rules", fmt.Sprintf("all %d obligations of this property are discharged on %s", len(sub.Obls), name))
		}
		cfgNotes = append(cfgNotes, fmt.Sprintf("%s: %d obligations, %d failed", name, len(sub.Obls), nf))
		r.End()
	}
	r.Extra["configurations"] = cfgNotes

	// (b) CHA cross-check
	{
		p.CG()
		saved := p.cg
		p.cg = p.chaCG
		sub := runSub(id, d, p)
		p.cg = saved
		var only []string
		for _, o := range sub.Obls {
			if o.Status != "ok" {
				only = append(only, o.Key())
			}
		}
		sort.Strings(only)
		r.Extra["cha_crosscheck"] = map[string]interface{}{"obligations": len(sub.Obls), "fail_only_under_CHA": only,
			"note": "CHA over-approximates dynamic dispatch; entries listed here are imprecision of the coarser graph (VTA result is the verdict), an empty list means the verdict does not depend on VTA's precision"}
	}

	// (c) self-test
	runSelfTest(id, r, repo, verif)
}

type stJob struct {
	kind   string // "mutant" | "benign" | "seeded"
	id     string
	args   []string
	expect []string // rules expected to fire (empty for benign)
	clean  func()
}

type stRes struct {
	job    stJob
	status string // killed | missed | skipped | nobuild | silent | false-alarm
	detail string
}

func runSelfTest(id string, r *Report, repo, verif string) {
	self, err := os.Executable()
	if err != nil {
		r.Extra["selftest"] = "skipped: " + err.Error()
		return
	}
	var jobs []stJob
	files, _ := filepath.Glob(filepath.Join(verif, "mutants", "*.json"))
	sort.Strings(files)
	for _, f := range files {
		var ms []mutant
		b, err := os.ReadFile(f)
		if err != nil || json.Unmarshal(b, &ms) != nil {
			continue
		}
		for _, m := range ms {
			var exp []string
			for _, e := range m.Expect {
				if len(e) == 2 && e[0] == id {
					exp = append(exp, e[1])
				}
			}
			base := []string{"-repo", repo, "-verif", verif, "-prop", id, "-nofixtures", "-tier", "quick", "-mutant", f + ":" + m.ID}
			if len(exp) > 0 {
				jobs = append(jobs, stJob{kind: "mutant", id: m.ID, args: base, expect: exp})
			}
			for _, s := range m.Silent {
				if s == id {
					jobs = append(jobs, stJob{kind: "benign", id: m.ID, args: base})
				}
			}
		}
	}
	// seeded regressions confirmed against the real code
	metas, _ := filepath.Glob(filepath.Join(verif, "seeded", "*", "meta.json"))
	sort.Strings(metas)
	for _, mf := range metas {
		var meta struct {
			ID       string   `json:"id"`
			Breaks   string   `json:"breaks_property"`
			CaughtBy []string `json:"caught_by_rules"`
		}
		b, err := os.ReadFile(mf)
		if err != nil || json.Unmarshal(b, &meta) != nil {
			continue
		}
		var exp []string
		for _, c := range meta.CaughtBy {
			if strings.HasPrefix(c, id+".") {
				exp = append(exp, c)
			}
		}
		if len(exp) == 0 {
			continue
		}
		dir := filepath.Dir(mf)
		tmp, err := os.MkdirTemp("", "lvseed-")
		if err != nil {
			continue
		}
		dst := filepath.Join(tmp, "repo")
		cp := exec.Command("rsync", "-a", "--exclude", ".git", repo+"/", dst+"/")
		if out, err := cp.CombinedOutput(); err != nil {
			os.RemoveAll(tmp)
			r.Extra["selftest_seeded_"+meta.ID] = "copy failed: " + string(out)
			continue
		}
		ap := exec.Command("patch", "-p1", "-s", "-i", filepath.Join(dir, "patch.diff"))
		ap.Dir = dst
		if out, err := ap.CombinedOutput(); err != nil {
			os.RemoveAll(tmp)
			jobs = append(jobs, stJob{kind: "seeded-skip", id: meta.ID, expect: exp, args: []string{string(out)}})
			continue
		}
		t := tmp
		jobs = append(jobs, stJob{kind: "seeded", id: meta.ID, expect: exp, clean: func() { os.RemoveAll(t) },
			args: []string{"-repo", dst, "-verif", verif, "-prop", id, "-nofixtures", "-tier", "quick"}})
	}

	res := make([]stRes, len(jobs))
	var wg sync.WaitGroup
	sem := make(chan struct{}, 4)
	for i := range jobs {
		wg.Add(1)
		go func(i int) {
			defer wg.Done()
			sem <- struct{}{}
			defer func() { <-sem }()
			j := jobs[i]
			if j.clean != nil {
				defer j.clean()
			}
			if j.kind == "seeded-skip" {
				res[i] = stRes{j, "skipped", "patch does not apply to the current tree: " + strings.TrimSpace(j.args[0])}
				return
			}
			out, err := os.MkdirTemp("", "lvst-")
			if err != nil {
				res[i] = stRes{j, "skipped", err.Error()}
				return
			}
			defer os.RemoveAll(out)
			cmd := exec.Command(self, append(j.args, "-out", out)...)
			cmd.Env = append(os.Environ(), "LVCHECK_PROCS=2")
			b, _ := cmd.CombinedOutput()
			code := cmd.ProcessState.ExitCode()
			text := string(b)
			switch {
			case code == 3:
				res[i] = stRes{j, "skipped", "edit context not found in the current tree"}
			case strings.Contains(text, "[load-error]"):
				res[i] = stRes{j, "nobuild", "mutated tree does not type-check"}
			case j.kind == "benign":
				if code == 0 {
					res[i] = stRes{j, "silent", ""}
				} else {
					res[i] = stRes{j, "false-alarm", firstFail(text, "")}
				}
			default:
				miss := ""
				hit := ""
				for _, rule := range j.expect {
					if l := firstFail(text, rule); l != "" && code == 1 {
						hit = l
					} else {
						miss += rule + " "
					}
				}
				if miss == "" {
					res[i] = stRes{j, "killed", hit}
				} else {
					res[i] = stRes{j, "missed", "expected rule(s) " + miss + "did not fire (exit " + fmt.Sprint(code) + ")"}
				}
			}
		}(i)
	}
	wg.Wait()

	cnt := map[string]int{}
	var problems, skipped []string
	for _, x := range res {
		cnt[x.status]++
		switch x.status {
		case "missed", "false-alarm":
			problems = append(problems, fmt.Sprintf("%s %s: %s %s", x.job.kind, x.job.id, x.status, x.detail))
			fmt.Printf("SELFTEST-MISS property=%s %s=%s %s %s\n", id, x.job.kind, x.job.id, x.status, x.detail)
		case "skipped", "nobuild":
			skipped = append(skipped, x.job.id+": "+x.detail)
		}
	}
	sort.Strings(problems)
	sort.Strings(skipped)
	r.Extra["selftest"] = map[string]interface{}{
		"what":     "catalogued breaking edits + confirmed seeded regressions applied to the current tree and re-analysed; benign refactorings must stay silent",
		"jobs":     len(jobs),
		"counts":   cnt,
		"problems": problems,
		"skipped":  skipped,
	}
	fmt.Printf("   selftest: %d jobs: %v\n", len(jobs), cnt)
}

func firstFail(text, rule string) string {
	for _, l := range strings.Split(text, "\n") {
		t := strings.TrimSpace(l)
		if strings.HasPrefix(t, "FAIL "+rule) && (rule == "" || strings.HasPrefix(t, "FAIL "+rule+" ")) {
			if len(t) > 200 {
				t = t[:200]
			}
			return t
		}
	}
	return ""
}
