package main

import (
	"go/token"

	"golang.org/x/tools/go/ssa"
)

// ruleRecordReaderFailure: journal.singleReader.Read / ReadByte fetch a record's next chunk with
// Reader.nextChunk(false). Its failure e has three meanings the callers must be able to tell apart:
// errSkip — the tolerant reader dropped damaged data: the record is incomplete and is reported as
// io.ErrUnexpectedEOF, the one value replay loops treat as "skip this record"; a corruption error
// (strict mode) or a storage read error — passed on unchanged, so that Open fails and nothing is
// thrown away. Hence, once nextChunk(false) has failed:
//   - the call ends in an error: it is not retried, no payload is handed out, and neither nil nor
//     io.EOF ("record complete") is returned — a prefix of a record would pass for a whole one;
//   - io.ErrUnexpectedEOF is produced only where e == errSkip was established — a storage error
//     dressed as "damaged record" makes recovery drop an acknowledged batch and delete the journal.
func ruleRecordReaderFailure(p *Prog, r *Report, rule string) {
	r.Begin(rule, "E-GUARD", "journal record reader: after a failed nextChunk(false) Read/ReadByte return an error — never nil or io.EOF, no retry, no payload — and substitute io.ErrUnexpectedEOF (the 'skip this record' value) only for the internal errSkip marker, passing every other error (corruption in strict mode, storage read errors) on unchanged; Reader.Next steps over a failed first chunk only for errSkip", 3)
	defer r.End()
	tS := "leveldb/journal.singleReader"
	isGlobalLoad := func(pkg, name string) VMatch {
		return func(v ssa.Value) bool {
			u, ok := stripConv(v).(*ssa.UnOp)
			if !ok || u.Op != token.MUL {
				return false
			}
			g, ok := u.X.(*ssa.Global)
			return ok && g.Name() == name && g.Pkg != nil && g.Pkg.Pkg.Path() == pkg
		}
	}
	nc := evCall("(*leveldb/journal.Reader).nextChunk")
	for _, name := range []string{"(*singleReader).Read", "(*singleReader).ReadByte"} {
		fn := resolveFn(p, r, "leveldb/journal", name)
		if fn == nil {
			continue
		}
		if !requireSites(p, r, fn, "continuation-read", "nextChunk(false)", nc, 1) {
			continue
		}
		// the failure value: the call's result, or the field it is latched in
		var mE func(v ssa.Value) bool
		mE = func(v ssa.Value) bool {
			v = stripConv(v)
			if c, ok := v.(*ssa.Call); ok && nc(c) {
				return true
			}
			// the value after a translation step: e, or a (non-nil) sentinel substituted for it
			if ph, ok := v.(*ssa.Phi); ok {
				some := false
				for _, e := range ph.Edges {
					e = stripConv(e)
					if c, ok := e.(*ssa.Call); ok && nc(c) {
						some = true
						continue
					}
					if u, ok := e.(*ssa.UnOp); ok {
						if _, isG := u.X.(*ssa.Global); isG {
							continue
						}
					}
					return false
				}
				return some
			}
			return isFieldLoad(v, tS, "err")
		}
		failed := nilAtom("e==nil", mE)
		isSkip := cmpAtom("e==errSkip", token.EQL, mE, isGlobalLoad("github.com/syndtr/goleveldb/leveldb/journal", "errSkip"))
		// (1) no retry, no payload, no "complete"/nil return after a failure
		as, vs := []Atom{failed}, []bool{false}
		isRet := func(in ssa.Instruction) bool { _, ok := in.(*ssa.Return); return ok }
		badRet := func(in ssa.Instruction) bool {
			ret, ok := in.(*ssa.Return)
			if !ok {
				return false
			}
			for _, res := range ret.Results {
				if !isErrorType(res.Type()) {
					continue
				}
				v := retValue(ret, res)
				if isNilConst(v) || isGlobalLoad("io", "EOF")(v) {
					return true
				}
			}
			return false
		}
		goesOn := func(in ssa.Instruction) bool { return nc(in) || isCallTo(in, "builtin:copy") || badRet(in) }
		if w := findPathV(after(fn, nc), atomEdges(as, vs), isRet2(badRet), goesOn, atomVals(as, vs)); w != nil {
			r.Fail(fnName(fn), "failed-continuation-is-an-error", "after a failed nextChunk(false) the call returns an error (no retry, no payload, not nil, not io.EOF)", "a path from the failed continuation read reaches another read, a payload copy, or a return of nil / io.EOF: a truncated record is delivered as complete", p.posOfLast(w, goesOn), p.renderPath(w))
		} else {
			r.OK(fnName(fn), "failed-continuation-is-an-error", "after a failed nextChunk(false) the call returns an error (no retry, no payload, not nil, not io.EOF)")
		}
		_ = isRet
		// (2) ErrUnexpectedEOF only for errSkip
		mkUEOF := func(in ssa.Instruction) bool {
			u, ok := in.(*ssa.UnOp)
			return ok && isGlobalLoad("io", "ErrUnexpectedEOF")(u)
		}
		as2, vs2 := []Atom{failed, isSkip}, []bool{false, false}
		if w := findPathV(after(fn, nc), atomEdges(as2, vs2), nc, mkUEOF, atomVals(as2, vs2)); w != nil {
			r.Fail(fnName(fn), "skip-value-only-for-skip-marker", "io.ErrUnexpectedEOF is substituted only for the errSkip marker", "an error other than errSkip (a storage read error, a strict-mode corruption error) can be replaced by io.ErrUnexpectedEOF: recovery skips the record as damaged, flushes, and removes the journal — an acknowledged batch is lost", p.posOfLast(w, mkUEOF), p.renderPath(w))
		} else {
			r.OK(fnName(fn), "skip-value-only-for-skip-marker", "io.ErrUnexpectedEOF is substituted only for the errSkip marker")
		}
		// (3) and the marker itself never leaves the package: with e == errSkip no return hands out e unchanged
		as3, vs3 := []Atom{failed, isSkip}, []bool{false, true}
		rawRet := func(in ssa.Instruction) bool {
			ret, ok := in.(*ssa.Return)
			if !ok {
				return false
			}
			for _, res := range ret.Results {
				if isErrorType(res.Type()) {
					if c, ok := stripConv(retValue(ret, res)).(*ssa.Call); ok && nc(c) {
						return true
					}
				}
			}
			return false
		}
		stUEOF := func(in ssa.Instruction) bool { return mkUEOF(in) }
		if w := findPathV(after(fn, nc), atomEdges(as3, vs3), stUEOF, isRet, atomVals(as3, vs3)); w != nil {
			r.Fail(fnName(fn), "skip-marker-translated", "the errSkip marker is reported as io.ErrUnexpectedEOF", "with e == errSkip a return is reached without substituting io.ErrUnexpectedEOF: callers see an unknown error and fail the open of a merely damaged journal", p.posOfLast(w, isRet), p.renderPath(w))
		} else {
			r.OK(fnName(fn), "skip-marker-translated", "the errSkip marker is reported as io.ErrUnexpectedEOF")
		}
		_ = rawRet
	}
	// Reader.Next: only the skip marker is stepped over; any other failure of nextChunk(true) ends Next with an error
	if fn := resolveFn(p, r, "leveldb/journal", "(*Reader).Next"); fn != nil && requireSites(p, r, fn, "first-chunk-read", "nextChunk(true)", nc, 1) {
		mE := func(v ssa.Value) bool { c, ok := stripConv(v).(*ssa.Call); return ok && nc(c) }
		failed := nilAtom("e==nil", mE)
		isSkip := cmpAtom("e==errSkip", token.EQL, mE, isGlobalLoad("github.com/syndtr/goleveldb/leveldb/journal", "errSkip"))
		as, vs := []Atom{failed, isSkip}, []bool{false, false}
		okRet := func(in ssa.Instruction) bool {
			ret, ok := in.(*ssa.Return)
			if !ok {
				return false
			}
			for _, res := range ret.Results {
				if isErrorType(res.Type()) && !isNilConst(retValue(ret, res)) {
					return true
				}
			}
			return false
		}
		goesOn := func(in ssa.Instruction) bool {
			if nc(in) {
				return true
			}
			_, isR := in.(*ssa.Return)
			return isR && !okRet(in)
		}
		if w := findPathV(after(fn, nc), atomEdges(as, vs), okRet, goesOn, atomVals(as, vs)); w != nil {
			r.Fail(fnName(fn), "only-skip-marker-stepped-over", "a failure of nextChunk(true) other than errSkip ends Next with an error", "an error other than errSkip is retried or swallowed: a storage read error at a record boundary silently skips data", p.posOfLast(w, goesOn), p.renderPath(w))
		} else {
			r.OK(fnName(fn), "only-skip-marker-stepped-over", "a failure of nextChunk(true) other than errSkip ends Next with an error")
		}
	}
}

// isRet2: avoid predicate "a return that is NOT bad" (a good return ends the path).
func isRet2(bad InstrPred) InstrPred {
	return func(in ssa.Instruction) bool {
		_, ok := in.(*ssa.Return)
		return ok && !bad(in)
	}
}
