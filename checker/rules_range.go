package main

import (
	"fmt"
	"go/token"
	"strings"

	"golang.org/x/tools/go/ssa"
)

// Range predicates on table files: the small comparison helpers every lookup, overlap computation
// and level search is built from (tFile.after/before/overlaps, tFiles.searchMin/searchMax/
// searchMinUkey/searchMaxUkey/overlaps/getOverlaps). Each is a boolean function of the SIGN of
// one comparer call (field key vs probe key) and possibly "probe is nil": the rule evaluates the
// function's CFG for every sign (abstract interpretation over {<,=,>} × {nil, non-nil}) and
// compares the result table with the specified one. An off-by-one flip (>= ↔ >) or swapped
// operands changes the table; an equivalent rewrite (swapped operands with the flipped operator,
// negated test with exchanged branches, explicit ifs instead of &&) does not.

// keyRole describes a key operand: field "imin"/"imax" (+".ukey"), or "p<k>" = the k-th parameter
// of the enclosing named function (followed through closures, phis and makeInternalKey).
func keyRole(v ssa.Value, depth int) string {
	if depth <= 0 {
		return "?"
	}
	v = stripConv(v)
	switch x := v.(type) {
	case *ssa.Call:
		if f := staticCallee(&x.Call); f != nil {
			switch fnName(f) {
			case "(leveldb.internalKey).ukey":
				return keyRole(x.Call.Args[0], depth-1) + ".ukey"
			case "leveldb.makeInternalKey":
				return keyRole(x.Call.Args[1], depth-1) + ".seek"
			}
		}
	case *ssa.UnOp:
		if x.Op == token.MUL {
			if _, f, _, ok := fieldOf(x.X); ok && (f == "imin" || f == "imax") {
				return f
			}
			if fv, ok := x.X.(*ssa.FreeVar); ok {
				return freeVarRole(fv)
			}
			if al := resolveCell(x.X); al != nil {
				for _, s := range cellStores(x.X) {
					if pa, ok := s.(*ssa.Parameter); ok {
						return paramRole(pa)
					}
				}
			}
		}
	case *ssa.Parameter:
		return paramRole(x)
	case *ssa.FreeVar:
		return freeVarRole(x)
	case *ssa.Phi:
		// a re-assigned parameter (umin/umax expansion): its parameter origin
		for _, e := range x.Edges {
			if pa, ok := stripConv(e).(*ssa.Parameter); ok {
				return paramRole(pa)
			}
		}
	}
	return "?"
}

func paramRole(pa *ssa.Parameter) string {
	for i, q := range pa.Parent().Params {
		if q == pa {
			return fmt.Sprintf("p%d", i)
		}
	}
	return "?"
}

func freeVarRole(fv *ssa.FreeVar) string {
	fn := fv.Parent()
	parent := fn.Parent()
	if parent == nil {
		return "?"
	}
	idx := -1
	for i, f := range fn.FreeVars {
		if f == fv {
			idx = i
		}
	}
	role := "?"
	instrs(parent, func(_ *ssa.BasicBlock, _ int, in ssa.Instruction) {
		if mc, ok := in.(*ssa.MakeClosure); ok && mc.Fn == fn && idx >= 0 && idx < len(mc.Bindings) {
			b := mc.Bindings[idx]
			if pa, ok := b.(*ssa.Parameter); ok {
				role = paramRole(pa)
			} else if al, ok := b.(*ssa.Alloc); ok {
				for _, s := range cellStores(al) {
					if pa, ok := s.(*ssa.Parameter); ok {
						role = paramRole(pa)
					}
				}
			}
		}
	})
	return role
}

// cmpLeaf: v is `cmp(A, B) <op> 0` (either operand order, NOT handled by the caller's evaluator).
// Returns the roles and a function giving the value of v from σ = sign(compare(field, probe)).
type cmpLeaf struct {
	field, probe string
	eval         func(sigma int) bool
}

func parseCmpLeaf(v ssa.Value) (cmpLeaf, bool) {
	b, ok := v.(*ssa.BinOp)
	if !ok || !isCmpOp(b.Op) {
		return cmpLeaf{}, false
	}
	op := b.Op
	var call *ssa.Call
	if c, ok := stripConv(b.X).(*ssa.Call); ok && mConstInt(0)(b.Y) {
		call = c
	} else if c, ok := stripConv(b.Y).(*ssa.Call); ok && mConstInt(0)(b.X) {
		call, op = c, flipOp(op)
	} else {
		return cmpLeaf{}, false
	}
	var A, B ssa.Value
	if call.Call.IsInvoke() {
		if call.Call.Method.Name() != "Compare" || len(call.Call.Args) != 2 {
			return cmpLeaf{}, false
		}
		A, B = call.Call.Args[0], call.Call.Args[1]
	} else {
		f := staticCallee(&call.Call)
		if f == nil || (fnName(f) != "(*leveldb.iComparer).Compare" && fnName(f) != "(*leveldb.iComparer).uCompare") {
			return cmpLeaf{}, false
		}
		A, B = call.Call.Args[1], call.Call.Args[2]
	}
	ra, rb := keyRole(A, 6), keyRole(B, 6)
	isField := func(s string) bool { return strings.HasPrefix(s, "imin") || strings.HasPrefix(s, "imax") }
	rel := func(s int) bool {
		switch op {
		case token.LSS:
			return s < 0
		case token.LEQ:
			return s <= 0
		case token.GTR:
			return s > 0
		case token.GEQ:
			return s >= 0
		case token.EQL:
			return s == 0
		}
		return s != 0
	}
	switch {
	case isField(ra) && !isField(rb):
		return cmpLeaf{ra, rb, func(sig int) bool { return rel(sig) }}, true
	case isField(rb) && !isField(ra):
		return cmpLeaf{rb, ra, func(sig int) bool { return rel(-sig) }}, true
	}
	return cmpLeaf{}, false
}

type rangePredSpec struct {
	fn     string // pkgrel leveldb function name
	field  string
	probe  string
	nilArg bool // the probe parameter is nil-tested: nil ⇒ false
	want   func(sigma int) bool
	desc   string
}

// boolTable evaluates fn's boolean result for one leaf valuation; returns the set of results.
func boolTable(fn *ssa.Function, leaf func(v ssa.Value) (bool, bool)) (canT, canF, unknown bool) {
	findPathX(entryPoint(fn), nil, nil, nil, leaf, func(in ssa.Instruction, known func(v ssa.Value) (bool, bool)) {
		ret, ok := in.(*ssa.Return)
		if !ok || len(ret.Results) != 1 {
			return
		}
		if b, ok := known(ret.Results[0]); ok {
			if b {
				canT = true
			} else {
				canF = true
			}
		} else {
			unknown = true
		}
	})
	return
}

func ruleRangePredicates(p *Prog, r *Report, rule string) {
	r.Begin(rule, "E-GUARD", "table range predicates, evaluated for every sign of the key comparison (and nil/non-nil probe): after ⇔ probe > imax.ukey; before ⇔ probe < imin.ukey (nil probe = unbounded ⇒ false); overlaps ⇔ ¬after(umin) ∧ ¬before(umax); searchMin/searchMax find the first table with imin/imax >= probe (internal order); searchMinUkey/searchMaxUkey the first with imin.ukey/imax.ukey > probe; the sorted overlap test probes searchMax with (umin, maxSeq, seek) and answers ¬before(umax); getOverlaps widens begin/end exactly when the neighbouring table's bound reaches the probe", 10)
	defer r.End()
	specs := []rangePredSpec{
		{"(*tFile).after", "imax.ukey", "p2", true, func(s int) bool { return s < 0 }, "after(ukey) ⇔ ukey ≠ nil ∧ imax.ukey < ukey"},
		{"(*tFile).before", "imin.ukey", "p2", true, func(s int) bool { return s > 0 }, "before(ukey) ⇔ ukey ≠ nil ∧ imin.ukey > ukey"},
		{"tFiles.searchMin$1", "imin", "p2", false, func(s int) bool { return s >= 0 }, "searchMin: first table with imin >= ikey"},
		{"tFiles.searchMax$1", "imax", "p2", false, func(s int) bool { return s >= 0 }, "searchMax: first table with imax >= ikey"},
		{"tFiles.searchMinUkey$1", "imin.ukey", "p2", false, func(s int) bool { return s > 0 }, "searchMinUkey: first table with imin.ukey > umin"},
		{"tFiles.searchMaxUkey$1", "imax.ukey", "p2", false, func(s int) bool { return s > 0 }, "searchMaxUkey: first table with imax.ukey > umax"},
	}
	for _, sp := range specs {
		fn := resolveFn(p, r, "leveldb", sp.fn)
		if fn == nil {
			continue
		}
		r.Site(1)
		// roles
		var leaves []cmpLeaf
		instrs(fn, func(_ *ssa.BasicBlock, _ int, in ssa.Instruction) {
			if v, ok := in.(ssa.Value); ok {
				if l, ok := parseCmpLeaf(v); ok {
					leaves = append(leaves, l)
				}
			}
		})
		if len(leaves) != 1 || leaves[0].field != sp.field || leaves[0].probe != sp.probe {
			var got []string
			for _, l := range leaves {
				got = append(got, l.field+" vs "+l.probe)
			}
			r.Fail(fnName(fn), "operands", sp.desc+": compares "+sp.field+" with the probe key "+sp.probe, fmt.Sprintf("comparisons found: %v", got), p.Pos(fn.Pos()), nil)
			continue
		}
		bad := ""
		nils := []bool{false}
		if sp.nilArg {
			nils = []bool{false, true}
		}
		for _, isNil := range nils {
			for sig := -1; sig <= 1; sig++ {
				leaf := func(v ssa.Value) (bool, bool) {
					if l, ok := parseCmpLeaf(v); ok {
						return l.eval(sig), true
					}
					if x, trueNonNil, ok := condNilTest(v); ok && keyRole(x, 4) == sp.probe {
						return trueNonNil != isNil, true
					}
					return false, false
				}
				t, f, u := boolTable(fn, leaf)
				want := sp.want(sig) && !isNil
				if u || t != want || f == want {
					bad += fmt.Sprintf(" [probe nil=%v, sign(%s vs probe)=%+d: want %v, got true=%v false=%v unknown=%v]", isNil, sp.field, sig, want, t, f, u)
				}
			}
		}
		r.Check(bad == "", fnName(fn), "sign-table", sp.desc, "result table differs:"+bad, p.Pos(fn.Pos()))
		if sp.nilArg && bad == "" {
			// a nil test of the probe exists at all (nil = open bound)
			n := countInstr(fn, func(in ssa.Instruction) bool {
				v, ok := in.(ssa.Value)
				if !ok {
					return false
				}
				x, _, ok := condNilTest(v)
				return ok && keyRole(x, 4) == sp.probe
			})
			r.Check(n >= 1, fnName(fn), "nil-probe-open", "a nil probe means an open bound (answer false)", "no nil test of the probe", p.Pos(fn.Pos()))
		}
	}
	// tFile.overlaps
	if fn := resolveFn(p, r, "leveldb", "(*tFile).overlaps"); fn != nil {
		r.Site(1)
		isCall := func(v ssa.Value, name string, arg string) bool {
			c, ok := callValue(v, name)
			return ok && keyRole(c.Call.Args[2], 4) == arg
		}
		bad := ""
		for _, a := range []bool{false, true} {
			for _, b := range []bool{false, true} {
				leaf := func(v ssa.Value) (bool, bool) {
					if isCall(v, "(*leveldb.tFile).after", "p2") {
						return a, true
					}
					if isCall(v, "(*leveldb.tFile).before", "p3") {
						return b, true
					}
					return false, false
				}
				t, f, u := boolTable(fn, leaf)
				want := !a && !b
				if u || t != want || f == want {
					bad += fmt.Sprintf(" [after(umin)=%v before(umax)=%v: want %v got true=%v false=%v unknown=%v]", a, b, want, t, f, u)
				}
			}
		}
		r.Check(bad == "", fnName(fn), "sign-table", "overlaps(umin, umax) ⇔ ¬after(umin) ∧ ¬before(umax)", "result table differs (or after/before applied to the wrong bound):"+bad, p.Pos(fn.Pos()))
	}
	// tFiles.overlaps, sorted branch
	if fn := resolveFn(p, r, "leveldb", "tFiles.overlaps"); fn != nil {
		// the lower bound is positioned at the FIRST table that can hold umin: the first whose largest
		// key is not below umin. Of the search helpers (whose predicates are pinned above) only
		// searchMax with the earliest internal key of umin — (umin, maxSeq, seek), which sorts before
		// every real entry of umin — has that meaning; the user-key searches are strict (> probe) and
		// skip a table whose largest user key EQUALS umin.
		r.Site(1)
		nPos := 0
		posBad := ""
		for _, h := range []string{"searchMax", "searchMaxUkey", "searchMin", "searchMinUkey"} {
			for _, c := range findCalls(fn, "(leveldb.tFiles)."+h) {
				nPos++
				cc := callCommon(c)
				switch h {
				case "searchMax":
					mk, ok := callValue(cc.Args[2], "leveldb.makeInternalKey")
					if !ok || keyRole(mk.Call.Args[1], 4) != "p2" || !isConstNamed(mk.Call.Args[2], "keyMaxSeq") || !isConstNamed(mk.Call.Args[3], "keyTypeSeek") {
						posBad = "searchMax at " + p.Pos(c.Pos()) + " is not probed with makeInternalKey(_, umin, keyMaxSeq, keyTypeSeek), the earliest internal key of umin"
					}
				case "searchMaxUkey":
					posBad = "the lower bound is positioned with searchMaxUkey at " + p.Pos(c.Pos()) + " (first table with imax.ukey > probe): a table whose largest user key equals umin is skipped, so an overlapping table is reported as not overlapping"
				default:
					posBad = "the lower bound is positioned with " + h + " at " + p.Pos(c.Pos()) + ", which searches on the tables' smallest keys"
				}
			}
		}
		if nPos == 0 {
			r.Fail(fnName(fn), "lower-bound-position:unresolved-anchor", "the sorted overlap test positions its lower bound with one of the table search helpers", "no search helper call found", p.Pos(fn.Pos()), nil)
		} else {
			r.Check(posBad == "", fnName(fn), "lower-bound-position", "the sorted overlap test starts at the first table whose largest key is not below umin (searchMax with the earliest internal key of umin)", posBad, p.Pos(fn.Pos()))
		}
		r.Site(1)
		bad := ""
		for _, past := range []bool{false, true} {
			for _, bf := range []bool{false, true} {
				leaf := func(v ssa.Value) (bool, bool) {
					if pa, ok := v.(*ssa.Parameter); ok && paramRefName(pa) == "unsorted" {
						return false, true
					}
					if c, ok := callValue(v, "(*leveldb.tFile).before"); ok && keyRole(c.Call.Args[2], 4) == "p3" {
						return bf, true
					}
					if b, ok := v.(*ssa.BinOp); ok && isCmpOp(b.Op) {
						// i >= len(tf)
						if l, ok := b.Y.(*ssa.Call); ok && isCallTo(l, "builtin:len") {
							switch b.Op {
							case token.GEQ:
								return past, true
							case token.LSS:
								return !past, true
							}
						}
					}
					return false, false
				}
				t, f, u := boolTable(fn, leaf)
				want := !past && !bf
				_ = u // the len(umin) > 0 test is deliberately left unknown (both arms explored)
				if t != want || f == want {
					bad += fmt.Sprintf(" [i>=len=%v before(umax)=%v: want %v got true=%v false=%v]", past, bf, want, t, f)
				}
			}
		}
		r.Check(bad == "", fnName(fn), "sorted-overlap-table", "sorted levels: overlaps ⇔ a table with imax >= (umin,maxSeq,seek) exists ∧ ¬that table.before(umax)", "result table differs:"+bad, p.Pos(fn.Pos()))
	}
	// getOverlaps: widening conditions of the sorted branch and range expansion of the level-0 branch
	if fn := resolveFn(p, r, "leveldb", "tFiles.getOverlaps"); fn != nil {
		type wc struct {
			field, probe string
			want         func(s int) bool
			desc         string
		}
		wants := []wc{
			{"imax.ukey", "p3", func(s int) bool { return s >= 0 }, "begin widened to index-1 ⇔ previous table's imax.ukey >= umin"},
			{"imin.ukey", "p4", func(s int) bool { return s <= 0 }, "end widened to index+1 ⇔ that table's imin.ukey <= umax"},
			{"imin.ukey", "p3", func(s int) bool { return s < 0 }, "level 0: umin lowered ⇔ an overlapping table's imin.ukey < umin"},
			{"imax.ukey", "p4", func(s int) bool { return s > 0 }, "level 0: umax raised ⇔ an overlapping table's imax.ukey > umax"},
		}
		found := map[int]bool{}
		instrs(fn, func(b *ssa.BasicBlock, _ int, in ssa.Instruction) {
			iff, ok := in.(*ssa.If)
			if !ok {
				return
			}
			l, ok := parseCmpLeaf(iff.Cond)
			if !ok {
				return
			}
			for i, w := range wants {
				if l.field == w.field && l.probe == w.probe {
					r.Site(1)
					found[i] = true
					bad := ""
					for s := -1; s <= 1; s++ {
						if l.eval(s) != w.want(s) {
							bad += fmt.Sprintf(" [sign(%s vs probe)=%+d: want %v]", w.field, s, w.want(s))
						}
					}
					r.Check(bad == "", fnName(fn), "widen:"+w.field+"/"+w.probe, w.desc, "the test at "+p.Pos(iff.Cond.Pos())+" differs:"+bad, p.Pos(iff.Cond.Pos()))
				}
			}
		})
		for i, w := range wants {
			if !found[i] {
				r.Fail(fnName(fn), "widen:"+w.field+"/"+w.probe+":unresolved-anchor", w.desc, "no such comparison found in getOverlaps", p.Pos(fn.Pos()), nil)
			}
		}
		// the widened indices: begin = index-1 / end = index+1 on the true edges
		r.Site(2)
		okB, okE := false, false
		instrs(fn, func(b *ssa.BasicBlock, _ int, in ssa.Instruction) {
			ph, ok := in.(*ssa.Phi)
			if !ok {
				return
			}
			for k, e := range ph.Edges {
				bo, ok := e.(*ssa.BinOp)
				if !ok || !mConstInt(1)(bo.Y) {
					continue
				}
				pred := ph.Block().Preds[k]
				// pred must be the true-successor of an If whose condition is the widening test
				if len(pred.Preds) != 1 {
					continue
				}
				iff, ok := pred.Preds[0].Instrs[len(pred.Preds[0].Instrs)-1].(*ssa.If)
				if !ok || pred.Preds[0].Succs[0] != pred {
					continue
				}
				l, ok := parseCmpLeaf(iff.Cond)
				if !ok {
					continue
				}
				if _, isS := callValue(bo.X, "(leveldb.tFiles).searchMinUkey"); isS && bo.Op == token.SUB && l.field == "imax.ukey" {
					okB = true
				}
				if _, isS := callValue(bo.X, "(leveldb.tFiles).searchMaxUkey"); isS && bo.Op == token.ADD && l.field == "imin.ukey" {
					okE = true
				}
			}
		})
		r.Check(okB, fnName(fn), "begin-widens-by-one", "on the true edge of the begin test begin = searchMinUkey(umin) - 1", "no such assignment on the true edge", p.Pos(fn.Pos()))
		r.Check(okE, fnName(fn), "end-widens-by-one", "on the true edge of the end test end = searchMaxUkey(umax) + 1", "no such assignment on the true edge", p.Pos(fn.Pos()))
	}
}

func isConstNamed(v ssa.Value, name string) bool {
	c, ok := stripConv(v).(*ssa.Const)
	if !ok || c.Value == nil {
		return false
	}
	switch name {
	case "keyMaxSeq":
		u, ok := constUint(c)
		return ok && u == (uint64(1)<<56)-1
	case "keyTypeSeek":
		u, ok := constUint(c)
		return ok && u == 1
	}
	return false
}
