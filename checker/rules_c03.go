package main

import (
	"fmt"
	"go/token"

	"golang.org/x/tools/go/ssa"
)

func init() {
	register(&propDef{
		id:          "C03",
		run:         runC03,
		explanation: "Static analysis of what makes a snapshot/iterator a frozen view: (1) point reads and iterator creation register a snapshot element for their duration (typestate pairing on every exit); (2) the snapshot list is kept oldest-first (PushBack / Front), an element is removed only when its count reaches zero, and minSeq falls back to the current sequence only when the list is empty; (3) the compaction drop guard — an entry is dropped only when shadowed for the OLDEST live snapshot or an obsolete base-level tombstone (guard extraction over SSA); (4) iterators pin the version and buffers they read through releaser objects attached to the returned iterator, with no early release; (5) every read is filtered by the view's own sequence (value-origin flow at every call site of get/has/newIterator). Each is a necessary condition; sufficiency of the guard (joint reasoning over snapshot positions × level layout) and behaviour over time are NOT decided.",
		notCovered:  "that the drop guard is sufficient for every snapshot set and level layout; behaviour over time; runtime interleavings of snapshot acquire/release with compaction",
		assumptions: []string{"container/list semantics", "sequence numbers only grow (C05.6)"},
	})
}

const tSnapElem = "leveldb.snapshotElement"

func runC03(p *Prog, r *Report) {
	if want("C03.18") {
		ruleTrBufferResetSoleHolder(p, r, "C03.18")
	}
	if want("C03.17") {
		ruleSnapshotReadsFrozenSeq(p, r, "C03.17")
	}
	if want("C03.16") {
		// (shared with C05) a snapshot read cannot lose its view to a concurrent Release
		ruleSnapshotReadsUnderLock(p, r, "C03.16")
	}
	if want("C03.15") {
		// buffer lookups honour the view's sequence number (shared with C01)
		ruleMemGet(p, r, "C03.15")
	}
	if want("C03.1") {
		ruleReadsRegistered(p, r, "C03.1")
	}
	if want("C03.2") {
		ruleSnapshotList(p, r, "C03.2")
	}
	if want("C03.3") {
		ruleDropGuard(p, r, "C03.3")
	}
	if want("C03.4") {
		ruleViewsPin(p, r, "C03.4")
	}
	if want("C03.5") {
		ruleReadSeqOrigin(p, r, "C03.5")
	}
	if want("C03.8") {
		ruleLevelsImmutable(p, r, "C03.8")
	}
	if want("C03.14") {
		// transaction / large-batch records are newer than every earlier snapshot (shared with C11.1b)
		ruleTrRecordSeq(p, r, "C03.14")
	}
	if want("C03.13") {
		// an iterator drops what it pinned exactly once (shared with C07.10)
		ruleReleaseOnce(p, r, "C03.13")
	}
	if want("C03.12") {
		// a view pins the write buffers it reads (shared with C07.4)
		ruleMemRefs(p, r, "C03.12")
	}
	if want("C03.11") {
		// a view keeps its tables because the version it pinned keeps its reference: every
		// session.version() reference is released exactly once (shared with C07.3)
		ruleVersionRefs(p, r, "C03.11")
	}
	if want("C03.10") {
		// entries above the view's sequence number are invisible to both scan directions
		ruleDbIterGuards(p, r, "C03.10")
	}
	if want("C03.9") {
		// a pinned version keeps its tables on storage however long it is held: the reference loop
		// (shared with C07.2) removes a table only at zero references and adds a long-held
		// version's references before applying later deltas
		ruleDeleters(p, r, "C03.9")
	}
	if want("C03.7") {
		ruleRetrySnapshotsAreCopies(p, r, "C03.7")
	}
	if want("C03.6") {
		ruleBaseLevel(p, r, "C03.6")
	}
}

func ruleReadsRegistered(p *Prog, r *Report, rule string) {
	r.Begin(rule, "E-PAIR", "DB.Get / DB.Has / DB.NewIterator acquire a snapshot element before reading and release it on every exit; Snapshot.Release releases exactly once", 4)
	defer r.End()
	sp := &TSpec{Name: "snap", Instr: func(in ssa.Instruction) ([]Eff, bool) {
		switch {
		case isCallTo(in, "(*leveldb.DB).acquireSnapshot"):
			return []Eff{{Res: "snap", D: +1}}, true
		case isCallTo(in, "(*leveldb.DB).releaseSnapshot"):
			return []Eff{{Res: "snap", D: -1}}, true
		}
		return nil, false
	}}
	for _, name := range []string{"(*DB).Get", "(*DB).Has", "(*DB).NewIterator"} {
		fn := resolveFn(p, r, "leveldb", name)
		if fn == nil {
			continue
		}
		acq := evCall("(*leveldb.DB).acquireSnapshot")
		read := evCall("(*leveldb.DB).get", "(*leveldb.DB).has", "(*leveldb.DB).newIterator")
		ordPrecede(p, r, fn, "registered-before-read", nil, acq, "acquireSnapshot()", read, "the read")
		res := sp.Analyze(fn, nil, nil)
		bad := len(res.Underflows) > 0
		for _, e := range res.Exits {
			if e.State.cnt["snap"] != 0 {
				bad = true
			}
		}
		r.Site(1)
		r.Check(!bad, fnName(fn), "released-on-every-exit", "the snapshot element acquired for the read is released on every exit (exactly once)", "an exit leaks or double-releases the snapshot element: compaction's minSeq would be pinned forever / an entry still needed could be dropped", p.Pos(fn.Pos()))
		// the read uses the element's sequence
		for _, c := range findCalls(fn, "(*leveldb.DB).get", "(*leveldb.DB).has", "(*leveldb.DB).newIterator") {
			idx := 4
			if isCallTo(c, "(*leveldb.DB).newIterator") {
				idx = 3
			}
			ok := argIs(c, idx, func(v ssa.Value) bool {
				u, ok := v.(*ssa.UnOp)
				if !ok {
					return false
				}
				t, f, base, ok := fieldOf(u.X)
				if !ok || t != tSnapElem || f != "seq" {
					return false
				}
				_, isAcq := callValue(base, "(*leveldb.DB).acquireSnapshot")
				return isAcq
			})
			r.Check(ok, fnName(fn), "reads-at-registered-seq", "the read is performed at the registered element's sequence", "read sequence is not acquireSnapshot().seq", p.Pos(c.Pos()))
		}
	}
	if fn := resolveFn(p, r, "leveldb", "(*Snapshot).Release"); fn != nil {
		released := boolAtom("snap.released", mFieldLoad("leveldb.Snapshot", "released"))
		checkGuard(p, r, GuardSpec{Rule: "release-once", Fn: fn, Target: evCall("(*leveldb.DB).releaseSnapshot"), TargetDesc: "db.releaseSnapshot(elem)", Atoms: []Atom{released}, G: func(a []bool) bool { return !a[0] }, GDesc: "¬snap.released", MinTargets: 1})
		notRel := atomEdges([]Atom{released}, []bool{false})
		for _, e := range []struct {
			k string
			p InstrPred
			d string
		}{{"marks-released", evStoreField("leveldb.Snapshot", "released"), "snap.released = true"}, {"releases-element", evCall("(*leveldb.DB).releaseSnapshot"), "db.releaseSnapshot(elem)"}} {
			if w := findPath(entryPoint(fn), notRel, e.p, isReturn); w != nil {
				r.Fail(fnName(fn), e.k+":skipped", "the first Release passes "+e.d, "a path of the first Release returns without "+e.d, p.posOfLast(w, isReturn), p.renderPath(w))
			} else {
				r.OK(fnName(fn), e.k, "the first Release passes "+e.d)
			}
		}
		// the flag is set to true, and before/with the release
		okv := false
		instrs(fn, func(_ *ssa.BasicBlock, _ int, in ssa.Instruction) {
			if st, ok := in.(*ssa.Store); ok && isFieldAddr(st.Addr, "leveldb.Snapshot", "released") {
				if b, ok := constBool(st.Val); ok && b {
					okv = true
				}
			}
		})
		r.Check(okv, fnName(fn), "flag-true", "Release sets released = true", "released is not set to true", p.Pos(fn.Pos()))
	}
	if fn := resolveFn(p, r, "leveldb", "(*DB).newSnapshot"); fn != nil {
		ordOnSuccess(p, r, fn, "snapshot-registered", nil, evCall("(*leveldb.DB).acquireSnapshot"), "acquireSnapshot()")
	}
}

func listCall(method string) string { return "(*container/list.List)." + method }

func ruleSnapshotList(p *Prog, r *Report, rule string) {
	r.Begin(rule, "E-SIB", "snapshot bookkeeping is oldest-first: acquireSnapshot appends at the back (reusing the back element only for the same sequence), minSeq reads the front and falls back to the current sequence only when the list is empty, releaseSnapshot removes an element only when its count reaches zero; all under snapsMu", 8)
	defer r.End()
	if fn := resolveFn(p, r, "leveldb", "(*DB).acquireSnapshot"); fn != nil {
		nBack := countInstr(fn, evCall(listCall("PushBack")))
		nOther := countInstr(fn, evCall(listCall("PushFront"), listCall("InsertBefore"), listCall("InsertAfter"), listCall("MoveToFront")))
		r.Site(nBack)
		r.Check(nBack == 1 && nOther == 0, fnName(fn), "append-at-back", "new snapshot elements are appended at the back (list stays ordered by sequence)", fmt.Sprintf("PushBack=%d other insertions=%d", nBack, nOther), p.Pos(fn.Pos()))
		sameSeq := cmpAtom("back.seq==seq", token.EQL, mFieldLoad(tSnapElem, "seq"), mCall("(*leveldb.DB).getSeq"))
		incRef := func(in ssa.Instruction) bool {
			st, ok := in.(*ssa.Store)
			if !ok || !isFieldAddr(st.Addr, tSnapElem, "ref") {
				return false
			}
			b, ok := st.Val.(*ssa.BinOp)
			return ok && b.Op == token.ADD
		}
		checkGuard(p, r, GuardSpec{Rule: "reuse-only-same-seq", Fn: fn, Target: incRef, TargetDesc: "se.ref++ (reuse of the back element)", Atoms: []Atom{sameSeq}, G: func(a []bool) bool { return a[0] }, GDesc: "back.seq == current seq", MinTargets: 1})
		// reuse inspects the BACK element
		r.Check(countInstr(fn, evCall(listCall("Back"))) == 1 && countInstr(fn, evCall(listCall("Front"))) == 0, fnName(fn), "reuse-inspects-back", "the reuse candidate is the newest (back) element", "acquireSnapshot inspects a different element", p.Pos(fn.Pos()))
		// the sequence is read under the snapshot lock
		ordPrecede(p, r, fn, "seq-read-under-lock", nil, func(in ssa.Instruction) bool { _, d, ok := mutexOp(in); return ok && d > 0 }, "snapsMu.Lock()", evCall("(*leveldb.DB).getSeq"), "db.getSeq()")
		// a fresh element starts with ref 1 and the sequence just read
		okRef, okSeq := false, false
		instrs(fn, func(_ *ssa.BasicBlock, _ int, in ssa.Instruction) {
			st, ok := in.(*ssa.Store)
			if !ok {
				return
			}
			if isFieldAddr(st.Addr, tSnapElem, "ref") && mConstInt(1)(st.Val) {
				okRef = true
			}
			if isFieldAddr(st.Addr, tSnapElem, "seq") {
				if _, ok := callValue(st.Val, "(*leveldb.DB).getSeq"); ok {
					okSeq = true
				}
			}
		})
		r.Check(okRef && okSeq, fnName(fn), "fresh-element", "a fresh element has ref=1 and seq=getSeq()", fmt.Sprintf("ref=1:%v seq=getSeq():%v", okRef, okSeq), p.Pos(fn.Pos()))
	}
	if fn := resolveFn(p, r, "leveldb", "(*DB).minSeq"); fn != nil {
		r.Check(countInstr(fn, evCall(listCall("Front"))) == 1 && countInstr(fn, evCall(listCall("Back"))) == 0, fnName(fn), "oldest-is-front", "minSeq reads the oldest (front) element", "minSeq reads a different element: entries still visible to an older snapshot could be dropped", p.Pos(fn.Pos()))
		r.Site(1)
		frontNil := nilAtom("Front()==nil", mCall(listCall("Front")))
		checkGuard(p, r, GuardSpec{Rule: "fallback-only-when-empty", Fn: fn, Target: evCall("(*leveldb.DB).getSeq"), TargetDesc: "fallback to db.getSeq()", Atoms: []Atom{frontNil}, G: func(a []bool) bool { return a[0] }, GDesc: "no live snapshot (Front()==nil)", MinTargets: 1})
		ordPrecede(p, r, fn, "under-lock", nil, func(in ssa.Instruction) bool { _, d, ok := mutexOp(in); return ok && d > 0 }, "snapsMu.Lock()", evCall(listCall("Front")), "snapsList.Front()")
		// the value returned for a non-empty list is the element's seq
		okv := false
		instrs(fn, func(_ *ssa.BasicBlock, _ int, in ssa.Instruction) {
			if ret, ok := in.(*ssa.Return); ok && len(ret.Results) == 1 {
				if mOriginAny(func(v ssa.Value) bool { return isFieldLoad(v, tSnapElem, "seq") })(retValue(ret, ret.Results[0])) {
					okv = true
				}
			}
		})
		r.Check(okv, fnName(fn), "returns-front-seq", "with live snapshots minSeq returns the front element's sequence", "no return of snapshotElement.seq", p.Pos(fn.Pos()))
	}
	if fn := resolveFn(p, r, "leveldb", "(*DB).releaseSnapshot"); fn != nil {
		zero := cmpAtom("se.ref==0", token.EQL, mFieldLoad(tSnapElem, "ref"), mConstInt(0))
		checkGuard(p, r, GuardSpec{Rule: "remove-only-at-zero", Fn: fn, Target: evCall(listCall("Remove")), TargetDesc: "snapsList.Remove(se.e)", Atoms: []Atom{zero}, G: func(a []bool) bool { return a[0] }, GDesc: "se.ref == 0", MinTargets: 1})
		dec := func(in ssa.Instruction) bool {
			st, ok := in.(*ssa.Store)
			if !ok || !isFieldAddr(st.Addr, tSnapElem, "ref") {
				return false
			}
			b, ok := st.Val.(*ssa.BinOp)
			return ok && b.Op == token.SUB && mConstInt(1)(b.Y)
		}
		ordPrecede(p, r, fn, "decrement-before-test", nil, dec, "se.ref--", evCall(listCall("Remove")), "Remove")
		// and when the count reaches zero it IS removed
		if w := findPathV(entryPoint(fn), atomEdges([]Atom{zero}, []bool{true}), evCall(listCall("Remove")), isReturn, atomVals([]Atom{zero}, []bool{true})); w != nil {
			r.Fail(fnName(fn), "not-removed-at-zero", "an element whose count reached zero is removed from the list", "with se.ref==0 a path returns without Remove: minSeq stays pinned and space is never reclaimed", p.posOfLast(w, isReturn), p.renderPath(w))
		} else {
			r.OK(fnName(fn), "removed-at-zero", "an element whose count reached zero is removed from the list")
		}
	}
}

func ruleViewsPin(p *Prog, r *Report, rule string) {
	r.Begin(rule, "E-PAIR", "views pin what they read: in newRawIterator the version reference and every buffer reference are handed to releaser objects attached to the returned iterators; nothing is released early; the releasers release exactly once; dbIter.Release releases the raw iterator", 8)
	defer r.End()
	fn := resolveFn(p, r, "leveldb", "(*DB).newRawIterator")
	if fn != nil {
		early := countInstr(fn, evCallAny("(*leveldb.version).release", "(*leveldb.version).releaseNB", "(*leveldb.memDB).decref"))
		r.Check(early == 0, fnName(fn), "no-early-release", "newRawIterator releases nothing itself (ownership moves to the iterator)", fmt.Sprintf("%d release/decref calls inside newRawIterator", early), p.Pos(fn.Pos()))
		type want struct {
			desc  string
			val   VMatch
			typ   string
			field string
			cond  bool
		}
		wants := []want{
			{"the version reference", mCall("(*leveldb.session).version"), "leveldb.versionReleaser", "v", false},
			{"the effective buffer reference", mExtract(0, "(*leveldb.DB).getMems"), "leveldb.memdbReleaser", "m", false},
			{"the frozen buffer reference", mExtract(1, "(*leveldb.DB).getMems"), "leveldb.memdbReleaser", "m", true},
			{"the auxiliary (transaction) buffer reference", mParam("auxm"), "leveldb.memdbReleaser", "m", true},
		}
		for _, w := range wants {
			r.Site(1)
			found := false
			instrs(fn, func(_ *ssa.BasicBlock, _ int, in ssa.Instruction) {
				st, ok := in.(*ssa.Store)
				if !ok || !isFieldAddr(st.Addr, w.typ, w.field) || !w.val(st.Val) {
					return
				}
				fa := st.Addr.(*ssa.FieldAddr)
				al, ok := fa.X.(*ssa.Alloc)
				if !ok {
					return
				}
				// the releaser object is passed to SetReleaser
				for _, ref := range *al.Referrers() {
					mi, ok := ref.(*ssa.MakeInterface)
					if !ok {
						continue
					}
					for _, r2 := range *mi.Referrers() {
						if c, ok := r2.(*ssa.Call); ok && isInvokeNamed(c, "SetReleaser") {
							found = true
						}
					}
				}
			})
			r.Check(found, fnName(fn), "pinned:"+w.typ+"."+w.field+":"+w.desc, w.desc+" is handed to a releaser attached with SetReleaser", w.desc+" is not transferred to a releaser: it is either leaked or the view is unpinned", p.Pos(fn.Pos()))
		}
		// the version releaser is attached to the merged iterator that is returned
		okv := false
		instrs(fn, func(_ *ssa.BasicBlock, _ int, in ssa.Instruction) {
			if c, ok := in.(*ssa.Call); ok && isInvokeNamed(c, "SetReleaser") {
				if _, isM := callValue(c.Call.Value, "leveldb/iterator.NewMergedIterator"); isM {
					okv = true
				}
			}
		})
		r.Check(okv, fnName(fn), "version-pinned-by-merged-iterator", "the version releaser is attached to the merged iterator", "NewMergedIterator result gets no releaser", p.Pos(fn.Pos()))
		// buffers are acquired with a counted reference
		ordPrecede(p, r, fn, "buffers-acquired", nil, evCall("(*leveldb.DB).getMems"), "getMems() (counted references)", evCall("(*leveldb/memdb.DB).NewIterator"), "memdb iterators")
	}
	if fn := resolveFn(p, r, "leveldb", "(*versionReleaser).Release"); fn != nil {
		once := boolAtom("vr.once", mFieldLoad("leveldb.versionReleaser", "once"))
		checkGuard(p, r, GuardSpec{Rule: "release-once", Fn: fn, Target: evCall("(*leveldb.version).releaseNB"), TargetDesc: "v.releaseNB()", Atoms: []Atom{once}, G: func(a []bool) bool { return !a[0] }, GDesc: "¬vr.once", MinTargets: 1})
		ordFollow(p, r, fn, "marks-once", nil, evCall("(*leveldb.version).releaseNB"), "releaseNB", evStoreField("leveldb.versionReleaser", "once"), "vr.once = true")
	}
	if fn := resolveFn(p, r, "leveldb", "(*memdbReleaser).Release"); fn != nil {
		n := countInstr(fn, evCall("(*sync.Once).Do"))
		dec := 0
		for _, a := range fn.AnonFuncs {
			dec += countInstr(a, evCall("(*leveldb.memDB).decref"))
		}
		direct := countInstr(fn, evCall("(*leveldb.memDB).decref"))
		r.Site(1)
		r.Check(n == 1 && dec == 1 && direct == 0, fnName(fn), "release-once", "the buffer reference is dropped exactly once (sync.Once)", fmt.Sprintf("once.Do=%d decref-in-closure=%d direct-decref=%d", n, dec, direct), p.Pos(fn.Pos()))
	}
	if fn := resolveFn(p, r, "leveldb", "(*dbIter).Release"); fn != nil {
		notReleased := assumeBool(func(v ssa.Value) (bool, bool) {
			if b, ok := v.(*ssa.BinOp); ok && (b.Op == token.NEQ || b.Op == token.EQL) && isFieldLoad(b.X, tDbIter, "dir") && mConstInt(-1)(b.Y) {
				return b.Op == token.NEQ, true
			}
			return false, false
		})
		rel := func(in ssa.Instruction) bool {
			return isInvokeNamed(in, "Release") && argIsRecv(in, mFieldLoad(tDbIter, "iter"))
		}
		if requireSites(p, r, fn, "raw-release", "i.iter.Release()", rel, 1) {
			if w := findPath(entryPoint(fn), notReleased, rel, isReturn); w != nil {
				r.Fail(fnName(fn), "raw-iterator-not-released", "releasing a DB iterator releases the raw merged iterator (and with it the version and buffers)", "a path of the first Release skips i.iter.Release(): the version stays pinned forever, its files are never deleted", p.posOfLast(w, isReturn), p.renderPath(w))
			} else {
				r.OK(fnName(fn), "raw-iterator-released", "releasing a DB iterator releases the raw merged iterator")
			}
		}
	}
	if fn := resolveFn(p, r, "leveldb/iterator", "(*mergedIterator).Release"); fn != nil {
		relSrc := func(in ssa.Instruction) bool { return isInvokeNamed(in, "Release") }
		n := countInstr(fn, relSrc)
		r.Site(n)
		r.Check(n >= 2, fnName(fn), "releases-sources-and-releaser", "the merged iterator releases every source and its own releaser", fmt.Sprintf("%d Release invocations", n), p.Pos(fn.Pos()))
	}
}

// argIsRecv: the receiver of an interface invoke satisfies m.
func argIsRecv(in ssa.Instruction, m VMatch) bool {
	cc := callCommon(in)
	return cc != nil && cc.IsInvoke() && m(cc.Value)
}

func ruleReadSeqOrigin(p *Prog, r *Report, rule string) {
	r.Begin(rule, "E-FLOW", "every call of db.get / db.has / db.newIterator passes a sequence that is the view's own: acquireSnapshot().seq, snap.elem.seq or tr.seq", 9)
	defer r.End()
	allowed := func(v ssa.Value) bool {
		return isFieldLoad(v, tSnapElem, "seq") || isFieldLoad(v, tTr, "seq")
	}
	n := 0
	for _, fn := range p.SrcFuncs("leveldb") {
		for _, c := range findCalls(fn, "(*leveldb.DB).get", "(*leveldb.DB).has", "(*leveldb.DB).newIterator") {
			idx := 4
			if isCallTo(c, "(*leveldb.DB).newIterator") {
				idx = 3
			}
			n++
			r.Fn(fnName(fn))
			r.Check(argIs(c, idx, allowed), fnName(fn), "seq-origin@"+calleeName(callCommon(c)), "the read sequence is the view's own (snapshot element or transaction)", "the read at "+p.Pos(c.Pos())+" uses a sequence of another origin (e.g. db.seq read later, or keyMaxSeq): the view is not frozen", p.Pos(c.Pos()))
		}
	}
	r.Site(n)
}
